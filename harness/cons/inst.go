package cons

import (
	"crypto/sha256"
	"encoding/binary"
	"fmt"

	"github.com/Fantom-foundation/lachesis-base/abft"
	"github.com/Fantom-foundation/lachesis-base/hash"
	"github.com/Fantom-foundation/lachesis-base/inter/dag"
	"github.com/Fantom-foundation/lachesis-base/inter/idx"
	"github.com/Fantom-foundation/lachesis-base/inter/pos"
	"github.com/Fantom-foundation/lachesis-base/kvdb"
	"github.com/Fantom-foundation/lachesis-base/kvdb/memorydb"
	"github.com/Fantom-foundation/lachesis-base/lachesis"
	"github.com/Fantom-foundation/lachesis-base/utils/adapters"
	"github.com/Fantom-foundation/lachesis-base/utils/cachescale"
	"github.com/Fantom-foundation/lachesis-base/vecfc"
)

// Ev is the event type used by all consensus workloads.
type Ev struct {
	dag.MutableBaseEvent
	Name string
}

func (e *Ev) String() string { return e.Name }

// SetHashID gives the event a content-derived ID (epoch|lamport prefix added by SetID). salt lets
// callers make otherwise identical events distinct.
func (e *Ev) SetHashID(salt uint64) {
	h := sha256.New()
	var b [8]byte
	w := func(v uint64) { binary.BigEndian.PutUint64(b[:], v); h.Write(b[:]) }
	w(uint64(e.Epoch()))
	w(uint64(e.Seq()))
	w(uint64(e.Frame()))
	w(uint64(e.Creator()))
	w(uint64(e.Lamport()))
	w(salt)
	for _, p := range e.Parents() {
		h.Write(p.Bytes())
	}
	var id [24]byte
	copy(id[:], h.Sum(nil)[:24])
	e.SetID(id)
}

// SetHashIDTail is SetHashID with the content hash in the LAST 16 bytes of the 24-byte ID part only: the first 8 bytes
// carry nothing but the creator's low byte, so many events (all events of one creator with one Lamport time, fork
// twins included) agree in epoch, Lamport and those 8 bytes. IDs are opaque: only all 24 bytes together identify an event.
func (e *Ev) SetHashIDTail(salt uint64) {
	e.SetHashID(salt)
	full := e.ID().Bytes()
	var id [24]byte
	id[7] = byte(e.Creator()) & 1
	copy(id[8:], full[8:24])
	e.SetID(id)
}

// Clone returns a copy with the same fields (ID included).
func (e *Ev) Clone() *Ev {
	c := &Ev{Name: e.Name}
	c.SetEpoch(e.Epoch())
	c.SetSeq(e.Seq())
	c.SetFrame(e.Frame())
	c.SetCreator(e.Creator())
	c.SetLamport(e.Lamport())
	c.SetParents(append(hash.Events{}, e.Parents()...))
	var id [24]byte
	copy(id[:], e.ID().Bytes()[8:])
	c.SetID(id)
	return c
}

type EvSource struct{ DB map[hash.Event]dag.Event }

func (s *EvSource) HasEvent(h hash.Event) bool { _, ok := s.DB[h]; return ok }
func (s *EvSource) GetEvent(h hash.Event) dag.Event {
	e, ok := s.DB[h]
	if !ok {
		return nil
	}
	return e
}

type Block struct {
	Epoch    idx.Epoch
	Frame    idx.Frame
	Atropos  hash.Event
	Cheaters []idx.ValidatorID
	Events   []hash.Event // in delivery order
	Dup      bool         // some event was applied twice within this block
	Sealed   bool         // EndBlock returned a validator set
	InBoot   bool         // emitted while Bootstrap was running
}

// SealPolicy decides, for the block just ended, whether the epoch is sealed and with which validators.
type SealPolicy func(epoch idx.Epoch, frame idx.Frame) *pos.Validators

type IndexCfg int

const (
	IdxLite IndexCfg = iota
	IdxDefault
	IdxTiny
)

func (c IndexCfg) Config() vecfc.IndexConfig {
	switch c {
	case IdxDefault:
		return vecfc.DefaultConfig(cachescale.Identity)
	case IdxTiny:
		return vecfc.IndexConfig{Caches: vecfc.IndexCacheConfig{ForklessCausePairs: 1, HighestBeforeSeqSize: 1, LowestAfterSeqSize: 1}}
	}
	return vecfc.LiteConfig()
}

type InstCfg struct {
	Index     IndexCfg
	StoreCfg  *abft.StoreConfig
	ReuseVals bool // when the sealing set equals the current one, return the current *pos.Validators object itself
}

// Inst wraps a real abft.IndexedLachesis whose main and epoch databases are owned by the harness.
type Inst struct {
	L      *abft.IndexedLachesis
	Store  *abft.Store
	VI     *vecfc.Index
	In     *EvSource
	Cfg    InstCfg
	MainDB kvdb.Store
	EpDBs  map[idx.Epoch]kvdb.Store
	Seal   SealPolicy

	Blocks  []*Block
	Crit    error
	booting bool
	// observed through callbacks
	OnBlock func(b *Block)
}

func BuildValidators(ids []idx.ValidatorID, weights []uint64) *pos.Validators {
	b := pos.NewBuilder()
	for i, id := range ids {
		b.Set(id, pos.Weight(weights[i]))
	}
	return b.Build()
}

// persistDB is a handle on a harness-owned epoch database: Close releases the handle only, Drop deletes the database.
type persistDB struct {
	kvdb.Store
	drop func()
}

func (p *persistDB) Close() error { return nil }
func (p *persistDB) Drop()        { p.drop() }

func copyDB(src kvdb.Store, onDrop func()) kvdb.Store {
	dst := memorydb.NewWithDrop(onDrop)
	it := src.NewIterator(nil, nil)
	defer it.Release()
	for it.Next() {
		k := append([]byte{}, it.Key()...)
		v := append([]byte{}, it.Value()...)
		if err := dst.Put(k, v); err != nil {
			panic(err)
		}
	}
	return dst
}

// NewInst creates a fresh instance at genesis (epoch, validators).
func NewInst(epoch idx.Epoch, vals *pos.Validators, seal SealPolicy, cfg InstCfg) *Inst {
	in := &Inst{In: &EvSource{DB: map[hash.Event]dag.Event{}}, Cfg: cfg, MainDB: memorydb.New(), EpDBs: map[idx.Epoch]kvdb.Store{}, Seal: seal}
	in.open()
	if err := in.Store.ApplyGenesis(&abft.Genesis{Epoch: epoch, Validators: vals}); err != nil {
		panic(err)
	}
	in.boot()
	return in
}

func (in *Inst) open() {
	crit := func(err error) { in.Crit = err; panic(err) }
	scfg := abft.LiteStoreConfig()
	if in.Cfg.StoreCfg != nil {
		scfg = *in.Cfg.StoreCfg
	}
	in.Store = abft.NewStore(in.MainDB, func(e idx.Epoch) kvdb.Store {
		// epoch databases behave like on-disk databases named after the epoch: closing a handle keeps the
		// content, only Drop removes it, and opening the same epoch number again finds whatever was left
		db, ok := in.EpDBs[e]
		if !ok {
			db = memorydb.New()
			in.EpDBs[e] = db
		}
		return &persistDB{Store: db, drop: func() { delete(in.EpDBs, e) }}
	}, crit, scfg)
	if in.VI == nil { // RestartKeepIndex hands over the old index object
		in.VI = vecfc.NewIndex(crit, in.Cfg.Index.Config())
	}
	in.L = abft.NewIndexedLachesis(in.Store, in.In, &adapters.VectorToDagIndexer{Index: in.VI}, crit, abft.LiteConfig())
}

func (in *Inst) boot() {
	in.booting = true
	err := in.L.Bootstrap(lachesis.ConsensusCallbacks{BeginBlock: func(bl *lachesis.Block) lachesis.BlockCallbacks {
		rec := &Block{Atropos: bl.Atropos, Cheaters: append([]idx.ValidatorID{}, bl.Cheaters...), InBoot: in.booting}
		seen := map[hash.Event]bool{}
		return lachesis.BlockCallbacks{
			ApplyEvent: func(e dag.Event) {
				if seen[e.ID()] {
					rec.Dup = true
				}
				seen[e.ID()] = true
				rec.Events = append(rec.Events, e.ID())
			},
			EndBlock: func() *pos.Validators {
				rec.Frame = in.Store.GetLastDecidedFrame() + 1
				rec.Epoch = in.Store.GetEpoch()
				var nv *pos.Validators
				if in.Seal != nil {
					nv = in.Seal(rec.Epoch, rec.Frame)
				}
				if nv != nil && in.Cfg.ReuseVals && nv.String() == in.Store.GetValidators().String() {
					nv = in.Store.GetValidators() // an application handing back the very same object for an unchanged set
				}
				rec.Sealed = nv != nil
				in.Blocks = append(in.Blocks, rec)
				if in.OnBlock != nil {
					in.OnBlock(rec)
				}
				return nv
			},
		}
	}})
	in.booting = false
	if err != nil {
		panic(fmt.Errorf("bootstrap: %w", err))
	}
}

// Restart simulates a process restart: the persisted main DB and current epoch DB are copied into fresh
// databases, and a new store / vector index / consensus object is bootstrapped over them. The event
// source (the application's event storage) and the block log are carried over.
func (in *Inst) Restart() *Inst { return in.restart(nil) }

// RestartKeepIndex re-creates the store and the consensus object (fresh Build counter) but keeps the very same
// vecfc.Index object, as an application does that owns one index for its lifetime; Bootstrap resets it over the epoch DB.
func (in *Inst) RestartKeepIndex() *Inst { return in.restart(in.VI) }

func (in *Inst) restart(keep *vecfc.Index) *Inst {
	n := &Inst{In: in.In, Cfg: in.Cfg, Seal: in.Seal, MainDB: copyDB(in.MainDB, func() {}), EpDBs: map[idx.Epoch]kvdb.Store{}, VI: keep}
	for ep, db := range in.EpDBs { // every epoch database that was not dropped survives the restart
		n.EpDBs[ep] = copyDB(db, func() {})
	}
	n.Blocks = append(n.Blocks, in.Blocks...)
	n.OnBlock = in.OnBlock
	n.open()
	n.boot()
	return n
}

// Process feeds one event; panics raised through crit are returned as errors (Crit is set).
func (in *Inst) Process(e dag.Event) (err error) {
	defer func() {
		if r := recover(); r != nil {
			err = fmt.Errorf("CRIT/panic: %v", r)
			if in.Crit == nil {
				in.Crit = err
			}
		}
	}()
	in.In.DB[e.ID()] = e
	err = in.L.Process(e)
	if err != nil {
		delete(in.In.DB, e.ID())
	}
	return err
}

// ProcessNoStore submits an event without touching the application's event storage (a resubmission of an event the
// application already holds: the stored original stays what GetEvent returns).
func (in *Inst) ProcessNoStore(e dag.Event) (err error) {
	defer func() {
		if r := recover(); r != nil {
			err = fmt.Errorf("CRIT/panic: %v", r)
			if in.Crit == nil {
				in.Crit = err
			}
		}
	}()
	return in.L.Process(e)
}

func (in *Inst) Build(e dag.MutableEvent) (err error) {
	defer func() {
		if r := recover(); r != nil {
			err = fmt.Errorf("CRIT/panic: %v", r)
		}
	}()
	return in.L.Build(e)
}

func (in *Inst) Reset(epoch idx.Epoch, vals *pos.Validators) (err error) {
	defer func() {
		if r := recover(); r != nil {
			err = fmt.Errorf("CRIT/panic: %v", r)
		}
	}()
	return in.L.Reset(epoch, vals)
}

func (in *Inst) Epoch() idx.Epoch { return in.Store.GetEpoch() }
