// Package cons holds the consensus-side engines: E1 the independent reference semantics (this file),
// the instance wrapper around the real abft.IndexedLachesis with harness-owned databases, and E2 the
// DAG / delivery-order generators.
package cons

import (
	"fmt"
	"sort"

	"github.com/Fantom-foundation/lachesis-base/hash"
	"github.com/Fantom-foundation/lachesis-base/inter/dag"
	"github.com/Fantom-foundation/lachesis-base/inter/idx"
)

// ---- E1: reference semantics from the graph definition (ancestor closure), no vector clocks, no branches.

type Bits []uint64

func (b Bits) Has(i int) bool { return i/64 < len(b) && b[i/64]&(1<<uint(i%64)) != 0 }
func (b *Bits) Set(i int) {
	for i/64 >= len(*b) {
		*b = append(*b, 0)
	}
	(*b)[i/64] |= 1 << uint(i%64)
}
func (b *Bits) Or(o Bits) {
	for len(*b) < len(o) {
		*b = append(*b, 0)
	}
	for i, w := range o {
		(*b)[i] |= w
	}
}
func (b Bits) Count() (n int) {
	for _, w := range b {
		for ; w != 0; w &= w - 1 {
			n++
		}
	}
	return
}

// and3 reports whether a&b&c is non-empty
func and3(a, b, c Bits) bool {
	n := len(a)
	if len(b) < n {
		n = len(b)
	}
	if len(c) < n {
		n = len(c)
	}
	for i := 0; i < n; i++ {
		if a[i]&b[i]&c[i] != 0 {
			return true
		}
	}
	return false
}

type REv struct {
	N       int
	ID      hash.Event
	Creator idx.ValidatorID
	Seq     idx.Event
	Parents []int
	SelfPar int // -1 if none
	Frame   idx.Frame
	SPFrame idx.Frame
	// observation of every validator (canonical order) in the ancestry of this event
	Hi   []idx.Event
	Fork []bool
}

type RBlock struct {
	Frame    idx.Frame
	Atropos  hash.Event
	Cheaters []idx.ValidatorID
	Events   map[hash.Event]bool
}

type Ref struct {
	ids     []idx.ValidatorID // canonical order: weight desc, id asc
	vidx    map[idx.ValidatorID]int
	w       []uint64
	total   uint64
	quorum  uint64
	evs     []*REv
	byID    map[hash.Event]int
	anc     []Bits // ancestors-or-self
	desc    []Bits // descendants-or-self
	byCr    []Bits // events by creator (canonical index)
	roots   map[idx.Frame][]int
	decided idx.Frame
	conf    Bits
	fcMemo  map[[2]int]bool
	Outside string // non-empty: met a situation only >1/3 Byzantine weight can produce
	Ties    int    // vote tallies with yes == no
	Exact   int    // tallies where one side held exactly the quorum
	FCTrue  int
}

func NewRef(ids []idx.ValidatorID, weights []uint64) *Ref {
	r := &Ref{vidx: map[idx.ValidatorID]int{}, byID: map[hash.Event]int{}, roots: map[idx.Frame][]int{}, fcMemo: map[[2]int]bool{}}
	type vw struct {
		id idx.ValidatorID
		w  uint64
	}
	var a []vw
	for i, id := range ids {
		if weights[i] == 0 {
			continue
		}
		a = append(a, vw{id, weights[i]})
		r.total += weights[i]
	}
	sort.Slice(a, func(i, j int) bool {
		if a[i].w != a[j].w {
			return a[i].w > a[j].w
		}
		return a[i].id < a[j].id
	})
	for i, x := range a {
		r.ids = append(r.ids, x.id)
		r.w = append(r.w, x.w)
		r.vidx[x.id] = i
	}
	r.byCr = make([]Bits, len(a))
	r.quorum = r.total*2/3 + 1
	return r
}

func (r *Ref) view(e dag.Event) (*REv, Bits, error) {
	v := &REv{N: len(r.evs), ID: e.ID(), Creator: e.Creator(), Seq: e.Seq(), SelfPar: -1, Frame: e.Frame()}
	if _, ok := r.vidx[v.Creator]; !ok {
		return nil, nil, fmt.Errorf("creator %d is not a validator", v.Creator)
	}
	for i, p := range e.Parents() {
		pi, ok := r.byID[p]
		if !ok {
			return nil, nil, fmt.Errorf("unknown parent %s", p.String())
		}
		v.Parents = append(v.Parents, pi)
		if i == 0 && e.Seq() > 1 {
			v.SelfPar = pi
		}
	}
	if v.SelfPar >= 0 {
		v.SPFrame = r.evs[v.SelfPar].Frame
	}
	var a Bits
	for _, p := range v.Parents {
		a.Or(r.anc[p])
	}
	a.Set(v.N)
	// observations by definition: scan the ancestry
	v.Hi = make([]idx.Event, len(r.ids))
	v.Fork = make([]bool, len(r.ids))
	seen := make([]map[idx.Event]bool, len(r.ids))
	visit := func(x *REv) {
		c := r.vidx[x.Creator]
		if seen[c] == nil {
			seen[c] = map[idx.Event]bool{}
		}
		if seen[c][x.Seq] {
			v.Fork[c] = true
		}
		seen[c][x.Seq] = true
		if x.Seq > v.Hi[c] {
			v.Hi[c] = x.Seq
		}
	}
	for i, x := range r.evs {
		if a.Has(i) {
			visit(x)
		}
	}
	visit(v)
	return v, a, nil
}

// fc: graph definition of "a is forkless caused by b". a may be a candidate not yet added (a.N == len(evs)).
func (r *Ref) fc(a *REv, aAnc Bits, b int) bool {
	bc := r.vidx[r.evs[b].Creator]
	if a.Fork[bc] {
		return false
	}
	if !aAnc.Has(b) {
		return false
	}
	var sum uint64
	for c := range r.ids {
		if a.Fork[c] {
			continue
		}
		ok := and3(aAnc, r.desc[b], r.byCr[c])
		if !ok && a.N >= len(r.evs) && r.vidx[a.Creator] == c {
			ok = true // a itself is by c, and b is in its ancestry
		}
		if ok {
			sum += r.w[c]
		}
	}
	return sum >= r.quorum
}

// FC for two added events (memoised: it only depends on anc[a], which never changes).
func (r *Ref) FC(a, b int) bool {
	k := [2]int{a, b}
	if v, ok := r.fcMemo[k]; ok {
		return v
	}
	v := r.fc(r.evs[a], r.anc[a], b)
	r.fcMemo[k] = v
	if v {
		r.FCTrue++
	}
	return v
}

// fcq: a is forkless caused by roots of frame f whose creators hold a quorum
func (r *Ref) fcq(a *REv, aAnc Bits, f idx.Frame) bool {
	var sum uint64
	done := map[idx.ValidatorID]bool{}
	for _, x := range r.roots[f] {
		c := r.evs[x].Creator
		if done[c] {
			continue
		}
		if r.fc(a, aAnc, x) {
			done[c] = true
			sum += r.w[r.vidx[c]]
		}
	}
	return sum >= r.quorum
}

// Frames returns the highest allowed frame (what Build must assign, capped at self-parent+100) and
// whether the frame claimed by e is allowed (what Process must accept).
func (r *Ref) Frames(e dag.Event) (max idx.Frame, allowed bool, err error) {
	v, a, err := r.view(e)
	if err != nil {
		return 0, false, err
	}
	f := v.SPFrame
	for f < v.SPFrame+100 && r.fcq(v, a, f) {
		f++
	}
	if f == 0 {
		f = 1
	}
	max = f
	g := v.SPFrame
	for g < e.Frame() && r.fcq(v, a, g) {
		g++
	}
	if g == 0 {
		g = 1
	}
	return max, g == e.Frame(), nil
}

// TrueMaxFrame is the highest allowed frame without the builder's cap of 100.
func (r *Ref) TrueMaxFrame(e dag.Event) (idx.Frame, error) {
	v, a, err := r.view(e)
	if err != nil {
		return 0, err
	}
	f := v.SPFrame
	for r.fcq(v, a, f) {
		f++
	}
	if f == 0 {
		f = 1
	}
	return f, nil
}

// Add an accepted event; returns the blocks that become decided by it. seal(b)==true ends the epoch.
func (r *Ref) Add(e dag.Event, seal func(b *RBlock) bool) (blocks []*RBlock, sealed bool) {
	v, a, err := r.view(e)
	if err != nil {
		panic(err)
	}
	r.anc = append(r.anc, a)
	r.evs = append(r.evs, v)
	r.byID[v.ID] = v.N
	r.desc = append(r.desc, nil)
	for i := 0; i <= v.N; i++ {
		if a.Has(i) {
			r.desc[i].Set(v.N)
		}
	}
	r.byCr[r.vidx[v.Creator]].Set(v.N)
	isRoot := false
	for f := v.SPFrame + 1; f <= v.Frame; f++ {
		r.roots[f] = append(r.roots[f], v.N)
		isRoot = true
	}
	if !isRoot {
		return nil, false // a non-root neither adds voters nor changes forkless-cause among existing roots
	}
	for {
		at, ok := r.elect(r.decided + 1)
		if !ok {
			break
		}
		b := &RBlock{Frame: r.decided + 1, Atropos: r.evs[at].ID, Events: map[hash.Event]bool{}}
		for c, id := range r.ids {
			if r.evs[at].Fork[c] {
				b.Cheaters = append(b.Cheaters, id)
			}
		}
		for i := range r.evs {
			if r.anc[at].Has(i) && !r.conf.Has(i) {
				r.conf.Set(i)
				b.Events[r.evs[i].ID] = true
			}
		}
		blocks = append(blocks, b)
		r.decided++
		if seal != nil && seal(b) {
			return blocks, true
		}
	}
	return blocks, false
}

type rvote struct {
	yes, decided bool
	obs          int
}

type rslot struct {
	ev int
	f  idx.Frame
}

// elect recomputes the whole election for frame d from scratch over all known roots.
func (r *Ref) elect(d idx.Frame) (atropos int, ok bool) {
	votes := map[rslot]map[int]rvote{}
	dec := map[int]rvote{}
	for f := d + 1; len(r.roots[f]) > 0; f++ {
		for _, x := range r.roots[f] {
			vs := map[int]rvote{}
			if f == d+1 {
				for s := range r.ids {
					vt := rvote{obs: -1}
					for _, y := range r.roots[d] {
						if r.vidx[r.evs[y].Creator] == s && r.FC(x, y) {
							if vt.yes && vt.obs != y {
								r.Outside = "round-1 root forkless-caused by two fork roots"
							}
							vt.yes, vt.obs = true, y
						}
					}
					vs[s] = vt
				}
			} else {
				var observed []rslot
				for _, y := range r.roots[f-1] {
					if r.FC(x, y) {
						observed = append(observed, rslot{y, f - 1})
					}
				}
				for s := range r.ids {
					var yes, no uint64
					obs := -1
					cnt := map[idx.ValidatorID]bool{}
					for _, o := range observed {
						c := r.evs[o.ev].Creator
						if cnt[c] {
							r.Outside = "forkless caused by two roots of one validator"
							continue
						}
						cnt[c] = true
						pv := votes[o][s]
						if pv.yes {
							if obs >= 0 && obs != pv.obs {
								r.Outside = "yes votes for different fork roots"
							}
							obs = pv.obs
							yes += r.w[r.vidx[c]]
						} else {
							no += r.w[r.vidx[c]]
						}
					}
					vt := rvote{yes: yes >= no, obs: -1}
					if yes == no {
						r.Ties++
					}
					if yes == r.quorum || no == r.quorum {
						r.Exact++
					}
					if vt.yes {
						vt.obs = obs
					}
					vt.decided = yes >= r.quorum || no >= r.quorum
					if vt.decided {
						if old, was := dec[s]; was {
							if old.yes != vt.yes || (old.yes && old.obs != vt.obs) {
								r.Outside = "conflicting decisions"
							}
						} else {
							dec[s] = vt
						}
					}
					vs[s] = vt
				}
			}
			votes[rslot{x, f}] = vs
		}
	}
	for s := range r.ids {
		v, was := dec[s]
		if !was {
			return 0, false
		}
		if v.yes {
			if v.obs < 0 {
				r.Outside = "decided yes without observed root"
				return 0, false
			}
			return v.obs, true
		}
	}
	if len(r.ids) > 0 && len(dec) == len(r.ids) {
		r.Outside = "all decided no"
	}
	return 0, false
}

func (r *Ref) Highest(e int, c idx.ValidatorID) (idx.Event, bool) {
	i := r.vidx[c]
	return r.evs[e].Hi[i], r.evs[e].Fork[i]
}
func (r *Ref) Len() int                        { return len(r.evs) }
func (r *Ref) Ev(i int) *REv                   { return r.evs[i] }
func (r *Ref) Index(id hash.Event) (int, bool) { i, ok := r.byID[id]; return i, ok }
func (r *Ref) Sorted() []idx.ValidatorID       { return r.ids }
func (r *Ref) Weights() []uint64               { return r.w }
func (r *Ref) Quorum() uint64                  { return r.quorum }
func (r *Ref) Decided() idx.Frame              { return r.decided }
func (r *Ref) Anc(i int) Bits                  { return r.anc[i] }
func (r *Ref) Roots(f idx.Frame) []int         { return r.roots[f] }
func (r *Ref) IsConfirmed(i int) bool          { return r.conf.Has(i) }
