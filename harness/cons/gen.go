package cons

import (
	"fmt"
	"math/rand"

	"github.com/Fantom-foundation/lachesis-base/hash"
	"github.com/Fantom-foundation/lachesis-base/inter/idx"
	"github.com/Fantom-foundation/lachesis-base/inter/pos"

	"verif/ev"
)

// ---- E2: workloads for consensus. DAGs are produced THROUGH a generator instance's Build, so frames are
// the ones the code assigns; the reference model checks them independently.

type EpochPlan struct {
	Epoch    idx.Epoch
	IDs      []idx.ValidatorID
	Weights  []uint64
	Cheaters map[int]bool // index into IDs
	SealAt   idx.Frame    // 0 = never sealed
	Lag      []float64
}

func (p *EpochPlan) Validators() *pos.Validators { return BuildValidators(p.IDs, p.Weights) }

type GenCfg struct {
	Plans      []*EpochPlan
	EventsPer  int // event budget per epoch
	MaxParents int // other-parents drawn from [0,MaxParents)
	MinParents int
	ForkProb   float64
	Leak       float64 // during a partition, probability that a tip of the other group is still accepted as parent (0 = strict partition)
	LowEntropyIDs bool // event IDs whose first 8 (of 24) bytes are nearly constant; the content hash sits in the last 16 (instance-built DAGs only)
	StrayProb  float64 // probability that a fork event is a stray twin nobody builds on (0 = the default 1/3)
	PartProb   float64 // probability per event to start a partition period
	TieHeavy   bool
	IndexCfg   IndexCfg
	Sleeper    bool  // the canonical-first validator alternates silent stretches with catch-up events linking to every tip
	UseInst    *Inst // generate through this existing instance instead of a fresh one
	Plain      bool  // no consensus instance: only the DAG shape is generated (frame 1 everywhere), one epoch
}

type EpochDAG struct {
	Plan   *EpochPlan
	Events []*Ev
	Sealed bool
}

type DAG struct {
	Cfg      *GenCfg
	Epochs   []*EpochDAG
	FP       uint64
	Forks    int
	Stray    int // fork events nobody builds on
	Rejected *Ev
}

func (d *DAG) NumEvents() (n int) {
	for _, e := range d.Epochs {
		n += len(e.Events)
	}
	return
}

// Policy is the seal policy every instance fed with this DAG must use.
func (c *GenCfg) Policy() SealPolicy {
	return func(epoch idx.Epoch, frame idx.Frame) *pos.Validators {
		for i, p := range c.Plans {
			if p.Epoch == epoch && p.SealAt != 0 && p.SealAt == frame && i+1 < len(c.Plans) {
				return c.Plans[i+1].Validators()
			}
		}
		return nil
	}
}

type WeightMode int

// RandomWeights draws a weight vector of n validators in one of several regimes.
func RandomWeights(r *rand.Rand, n int, tieHeavy bool) []uint64 {
	w := make([]uint64, n)
	mode := r.Intn(7)
	if tieHeavy {
		mode = 0
	}
	for i := range w {
		switch mode {
		case 0:
			w[i] = 1
		case 1:
			w[i] = 1 + uint64(r.Intn(4))
		case 2: // skewed 67/33-like
			if i == 0 {
				w[i] = uint64(2*n + r.Intn(3) - 1)
				if w[i] == 0 {
					w[i] = 1
				}
			} else {
				w[i] = 1
			}
		case 3: // near-2^31 totals
			w[i] = (1<<31 - 1) / uint64(n)
			if i > 0 && r.Intn(2) == 0 {
				w[i] -= uint64(r.Intn(1000))
			}
		case 4: // whale near 1/3
			if i == 0 {
				w[i] = uint64(n-1)/2 + uint64(r.Intn(2))
				if w[i] == 0 {
					w[i] = 1
				}
			} else {
				w[i] = 1
			}
		case 5:
			w[i] = 1 + uint64(r.Intn(100))
		default:
			w[i] = []uint64{1, 1, 2, 3}[r.Intn(4)]
		}
	}
	return w
}

type CheatMode int

const (
	CheatNone       CheatMode = iota
	CheatBelowThird           // 3*W(cheaters) < total
	CheatAny                  // any subset, also >= 1/3
)

// RandomPlans draws validator sets for nEpochs epochs with seeded sealing frames and mutated sets.
func RandomPlans(r *rand.Rand, nEpochs, maxN int, tieHeavy bool, cheat CheatMode) []*EpochPlan {
	var plans []*EpochPlan
	n := 0
	if maxN < 0 { // exact validator count requested
		n, maxN = -maxN, -maxN
	} else {
		n = 1 + r.Intn(maxN)
	}
	if tieHeavy {
		n = []int{4, 4, 6, 8, 2}[r.Intn(5)]
		if n > maxN {
			n = 4
		}
	}
	ids := make([]idx.ValidatorID, n)
	base := 1 + r.Intn(1000)
	for i := range ids {
		ids[i] = idx.ValidatorID(base + i*7 + r.Intn(7))
	}
	ws := RandomWeights(r, n, tieHeavy)
	for ep := 0; ep < nEpochs; ep++ {
		p := &EpochPlan{Epoch: idx.Epoch(1 + ep), IDs: append([]idx.ValidatorID{}, ids...), Weights: append([]uint64{}, ws...), Cheaters: map[int]bool{}}
		var total uint64
		for _, w := range p.Weights {
			total += w
		}
		if cheat != CheatNone {
			var cw uint64
			limit := cheat == CheatBelowThird || r.Intn(2) == 0
			for _, c := range r.Perm(len(p.IDs)) {
				if r.Intn(2) == 0 {
					continue
				}
				if limit && (cw+p.Weights[c])*3 >= total {
					continue
				}
				p.Cheaters[c] = true
				cw += p.Weights[c]
			}
		}
		// lagging validators: mostly a minority of the weight, so that frames keep being decided
		var lagW uint64
		for i := range p.IDs {
			if p.Cheaters[i] {
				lagW += p.Weights[i] // cheaters and laggards together mostly stay below one third
			}
		}
		heavyLag := r.Intn(6) == 0
		for i := range p.IDs {
			l := []float64{0, 0, 0, 0, 0.3, 0.8}[r.Intn(6)]
			if l > 0 && !heavyLag && (lagW+p.Weights[i])*3 >= total {
				l = 0
			}
			if l > 0 {
				lagW += p.Weights[i]
			}
			p.Lag = append(p.Lag, l)
		}
		if ep+1 < nEpochs {
			p.SealAt = idx.Frame(1 + r.Intn(6))
			if r.Intn(8) == 0 {
				p.SealAt = idx.Frame(7 + r.Intn(9))
			}
		}
		plans = append(plans, p)
		// mutate the set for the next epoch
		switch r.Intn(5) {
		case 0: // unchanged
		case 1: // new weights (changes canonical order)
			ws = RandomWeights(r, len(ids), tieHeavy)
		case 2: // drop one
			if len(ids) > 1 {
				k := r.Intn(len(ids))
				ids = append(append([]idx.ValidatorID{}, ids[:k]...), ids[k+1:]...)
				ws = append(append([]uint64{}, ws[:k]...), ws[k+1:]...)
			}
		case 3: // add one
			if len(ids) < maxN {
				ids = append(append([]idx.ValidatorID{}, ids...), idx.ValidatorID(5000+r.Intn(1000)))
				ws = append(append([]uint64{}, ws...), 1+uint64(r.Intn(3)))
			}
		default: // swap two weights
			if len(ids) > 1 {
				ws = append([]uint64{}, ws...)
				a, b := r.Intn(len(ids)), r.Intn(len(ids))
				ws[a], ws[b] = ws[b], ws[a]
			}
		}
		// keep totals within the limit
		var t uint64
		for _, w := range ws {
			t += w
		}
		if t > 1<<31-1 {
			ws = RandomWeights(r, len(ids), true)
		}
	}
	return plans
}

// Generate builds the multi-epoch DAG. It returns the generator instance too (already fed with everything).
func Generate(r *rand.Rand, cfg *GenCfg) (*DAG, *Inst, error) {
	var g *Inst
	if cfg.UseInst != nil {
		g = cfg.UseInst // continue generating through an existing instance (its current epoch must be Plans[0].Epoch)
	} else if !cfg.Plain {
		g = NewInst(cfg.Plans[0].Epoch, cfg.Plans[0].Validators(), cfg.Policy(), InstCfg{Index: cfg.IndexCfg})
	}
	seenIDs := map[hash.Event]bool{}
	d := &DAG{Cfg: cfg}
	for pi, plan := range cfg.Plans {
		if g != nil && g.Epoch() != plan.Epoch {
			break
		}
		if g == nil && pi > 0 {
			break // plain DAGs have one epoch
		}
		ed := &EpochDAG{Plan: plan}
		d.Epochs = append(d.Epochs, ed)
		n := len(plan.IDs)
		own := make([][]*Ev, n)  // all events by creator
		tips := make([][]*Ev, n) // events without a self-child
		group := make([]int, n)  // partition group of each validator
		partLeft := 0
		attempts := 0
		// the sleeper is the canonical-first validator (highest weight, lowest id)
		sleeper, sleepLeft, awakeLeft := 0, 0, 0
		for i := range plan.IDs {
			if plan.Weights[i] > plan.Weights[sleeper] || (plan.Weights[i] == plan.Weights[sleeper] && plan.IDs[i] < plan.IDs[sleeper]) {
				sleeper = i
			}
		}
		if cfg.Sleeper {
			sleepLeft = 1 + r.Intn(n+1)
		}
		for len(ed.Events) < cfg.EventsPer && attempts < cfg.EventsPer*20 {
			attempts++
			c := r.Intn(n)
			if r.Float64() < plan.Lag[c] {
				continue
			}
			wake := false
			if cfg.Sleeper && c == sleeper {
				if sleepLeft > 0 {
					sleepLeft--
					continue
				}
				if awakeLeft == 0 {
					wake = true // first event after a sleep: link to every tip => multi-frame jump
					awakeLeft = 1 + r.Intn(3)
				} else {
					awakeLeft--
					if awakeLeft == 0 {
						sleepLeft = 2 + r.Intn(3*n+2)
					}
				}
			}
			if partLeft > 0 {
				partLeft--
				if partLeft == 0 {
					for i := range group {
						group[i] = 0
					}
				}
			} else if cfg.PartProb > 0 && r.Float64() < cfg.PartProb && n > 1 {
				for i := range group {
					group[i] = r.Intn(2)
				}
				partLeft = 5 + r.Intn(4*n+5)
				if cfg.Leak > 0 {
					partLeft += 6 * n // a leaky partition lasts for several frames
				}
			}
			e := &Ev{}
			e.SetEpoch(plan.Epoch)
			e.SetCreator(plan.IDs[c])
			var sp *Ev
			if len(tips[c]) > 0 {
				sp = tips[c][r.Intn(len(tips[c]))]
			}
			forked := false
			if plan.Cheaters[c] && len(own[c]) > 0 && r.Float64() < cfg.ForkProb {
				forked = true
				switch r.Intn(4) {
				case 0:
					sp = nil // another seq-1 event
				case 1:
					sp = own[c][len(own[c])-1-r.Intn(minInt(3, len(own[c])))] // fork close to the tip
				default:
					sp = own[c][r.Intn(len(own[c]))]
				}
			}
			var parents hash.Events
			lam := idx.Lamport(0)
			if sp != nil {
				parents = append(parents, sp.ID())
				e.SetSeq(sp.Seq() + 1)
				lam = sp.Lamport()
			} else {
				e.SetSeq(1)
			}
			k := cfg.MinParents
			if cfg.MaxParents > cfg.MinParents {
				k += r.Intn(cfg.MaxParents - cfg.MinParents)
			}
			if wake {
				k = n
			}
			for _, o := range r.Perm(n) {
				if k <= 0 {
					break
				}
				if o == c || len(tips[o]) == 0 {
					continue
				}
				if group[o] != group[c] && !(cfg.Leak > 0 && r.Float64() < cfg.Leak) {
					continue // partitioned away (a leaky partition lets a few cross links through)
				}
				p := tips[o][r.Intn(len(tips[o]))]
				parents = append(parents, p.ID())
				if p.Lamport() > lam {
					lam = p.Lamport()
				}
				k--
				// occasionally a second parent by the same (forking) creator
				if len(tips[o]) > 1 && r.Intn(4) == 0 {
					p2 := tips[o][r.Intn(len(tips[o]))]
					if p2 != p {
						parents = append(parents, p2.ID())
						if p2.Lamport() > lam {
							lam = p2.Lamport()
						}
					}
				}
			}
			e.SetParents(parents)
			e.SetLamport(lam + 1)
			e.Name = fmt.Sprintf("e%d.%c%03d", plan.Epoch, 'a'+c%26, len(own[c]))
			if g == nil {
				e.SetFrame(1)
				e.SetHashID(0)
				if seenIDs[e.ID()] {
					continue
				}
				seenIDs[e.ID()] = true
				ed.Events = append(ed.Events, e)
				own[c] = append(own[c], e)
				if forked {
					d.Forks++
				}
				if sp != nil && !forked {
					for i, x := range tips[c] {
						if x == sp {
							tips[c] = append(tips[c][:i], tips[c][i+1:]...)
							break
						}
					}
				}
				tips[c] = append(tips[c], e)
				continue
			}
			if err := g.Build(e); err != nil {
				return d, g, fmt.Errorf("generator Build failed: %v", err)
			}
			if cfg.LowEntropyIDs {
				e.SetHashIDTail(0)
			} else {
				e.SetHashID(0)
			}
			if _, dup := g.In.DB[e.ID()]; dup {
				continue
			}
			if err := g.Process(e); err != nil {
				d.Rejected = e // the event the generating instance built and then refused (not part of Events)
				return d, g, fmt.Errorf("generator instance rejected its own built event %s: %v", e.Name, err)
			}
			ed.Events = append(ed.Events, e)
			own[c] = append(own[c], e)
			if forked {
				d.Forks++
			}
			if sp != nil && !forked {
				for i, x := range tips[c] {
					if x == sp {
						tips[c] = append(tips[c][:i], tips[c][i+1:]...)
						break
					}
				}
			}
			if forked && ((cfg.StrayProb == 0 && r.Intn(3) == 0) || (cfg.StrayProb > 0 && r.Float64() < cfg.StrayProb)) {
				// a stray twin: nobody (not even its creator) ever builds on it
				own[c] = own[c][:len(own[c])-1]
				d.Stray++
			} else {
				tips[c] = append(tips[c], e)
			}
			if g.Epoch() != plan.Epoch {
				ed.Sealed = true
				break
			}
		}
		if !ed.Sealed {
			break
		}
		_ = pi
	}
	var parts []interface{}
	for _, ed := range d.Epochs {
		for _, e := range ed.Events {
			parts = append(parts, e.ID())
		}
	}
	d.FP = ev.Hash(parts...)
	return d, g, nil
}

func minInt(a, b int) int {
	if a < b {
		return a
	}
	return b
}

// ---- delivery orders (all parents-first)

type OrderKind int

const (
	OrdGen OrderKind = iota
	OrdRandom
	OrdLIFO
	OrdFIFO
	OrdCreatorLate
	OrdCreatorEarly
	OrdRootsLast
	OrdRootsFirst
	NumOrderKinds
)

func (k OrderKind) String() string {
	return [...]string{"generation", "random-topological", "depth-first", "breadth-first", "creator-late", "creator-early", "roots-last", "roots-first"}[k]
}

// Order returns a parents-first permutation of evs.
func Order(r *rand.Rand, evs []*Ev, kind OrderKind) []*Ev {
	return OrderSpecial(r, evs, kind, 0)
}

// OrderSpecial is Order with the creator that OrdCreatorLate / OrdCreatorEarly single out chosen by the caller (0 = seeded choice).
func OrderSpecial(r *rand.Rand, evs []*Ev, kind OrderKind, forced idx.ValidatorID) []*Ev {
	if kind == OrdGen {
		return append([]*Ev{}, evs...)
	}
	posOf := map[hash.Event]int{}
	for i, e := range evs {
		posOf[e.ID()] = i
	}
	indeg := make([]int, len(evs))
	children := make([][]int, len(evs))
	for i, e := range evs {
		for _, p := range e.Parents() {
			if pi, ok := posOf[p]; ok {
				indeg[i]++
				children[pi] = append(children[pi], i)
			}
		}
	}
	var special idx.ValidatorID
	if len(evs) > 0 {
		special = evs[r.Intn(len(evs))].Creator()
	}
	if forced != 0 {
		special = forced
	}
	isRoot := func(i int) bool {
		e := evs[i]
		if e.SelfParent() == nil {
			return true
		}
		if pi, ok := posOf[*e.SelfParent()]; ok {
			return evs[pi].Frame() != e.Frame()
		}
		return true
	}
	var ready, out []int
	for i, d := range indeg {
		if d == 0 {
			ready = append(ready, i)
		}
	}
	pick := func() int {
		switch kind {
		case OrdLIFO:
			return len(ready) - 1
		case OrdFIFO:
			return 0
		case OrdCreatorLate, OrdCreatorEarly, OrdRootsLast, OrdRootsFirst:
			var pref []int
			for k, x := range ready {
				var good bool
				switch kind {
				case OrdCreatorLate:
					good = evs[x].Creator() != special
				case OrdCreatorEarly:
					good = evs[x].Creator() == special
				case OrdRootsLast:
					good = !isRoot(x)
				case OrdRootsFirst:
					good = isRoot(x)
				}
				if good {
					pref = append(pref, k)
				}
			}
			if len(pref) > 0 {
				return pref[r.Intn(len(pref))]
			}
		}
		return r.Intn(len(ready))
	}
	for len(ready) > 0 {
		k := pick()
		x := ready[k]
		ready = append(ready[:k], ready[k+1:]...)
		out = append(out, x)
		for _, ch := range children[x] {
			indeg[ch]--
			if indeg[ch] == 0 {
				ready = append(ready, ch)
			}
		}
	}
	res := make([]*Ev, len(out))
	for i, x := range out {
		res[i] = evs[x]
	}
	return res
}

// RootArrivalFP fingerprints the relative arrival order of root events in an order.
func RootArrivalFP(order []*Ev) uint64 {
	byID := map[hash.Event]*Ev{}
	var parts []interface{}
	for _, e := range order {
		byID[e.ID()] = e
		root := e.SelfParent() == nil
		if !root {
			if sp, ok := byID[*e.SelfParent()]; ok {
				root = sp.Frame() != e.Frame()
			}
		}
		if root {
			parts = append(parts, e.ID())
		}
	}
	return ev.Hash(parts...)
}
