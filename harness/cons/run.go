package cons

import (
	"fmt"
	"math/rand"

	"github.com/Fantom-foundation/lachesis-base/hash"
	"github.com/Fantom-foundation/lachesis-base/inter/idx"
)

// Disc is one disagreement between the implementation and the reference (or a broken invariant) seen
// while driving an instance. Kind is stable and used by the checks to attribute it to a property.
type Disc struct {
	Kind   string
	Detail map[string]interface{}
}

const (
	DEventRejected  = "valid-event-rejected"     // C01/C10: Process returned an error for a generated valid event
	DFrameNotMax    = "built-frame-not-max"      // C04/C10: frame assigned by Build differs from the reference's highest allowed frame
	DBlockCount     = "block-emission-moment"    // C10: number of blocks emitted by this event differs from the reference
	DAtropos        = "atropos-mismatch"         // C10
	DCheaters       = "cheaters-mismatch"        // C03
	DDelivered      = "delivered-set-mismatch"   // C02
	DDeliveredTwice = "event-delivered-twice"    // C02
	DFrameNumber    = "block-frame-number"       // C02
	DAtroposNotRoot = "atropos-not-a-frame-root" // C02
	DParentLater    = "ancestor-delivered-later" // C02
	DSealMismatch   = "epoch-seal-mismatch"      // C01/C09
	DCrit           = "crit-or-panic"            // any
)

type Trace struct {
	Inst        *Inst
	Refs        []*Ref // one per epoch driven
	Blocks      []*Block
	Discs       []Disc
	Processed   int
	Skipped     int // old-epoch events dropped after the seal
	Outside     string
	Ties        int
	Exact       int
	MultiEv     int // blocks delivering >1 event
	LamportInversions int // consecutive blocks whose Atropos Lamport times fall
	EmptyBlk    int // blocks delivering no event (Atropos already delivered: same root elected for two frames)
	JumpRoots   int // processed events whose frame is >= 2 above their self-parent's
	CheatBlk    int // blocks with a non-empty expected cheater list
	HiddenFork  int // blocks where forks exist in the epoch so far but the expected list is empty
	RootOrderFP uint64
}

func (t *Trace) add(kind string, kv ...interface{}) {
	d := map[string]interface{}{}
	for i := 0; i+1 < len(kv); i += 2 {
		d[fmt.Sprint(kv[i])] = kv[i+1]
	}
	t.Discs = append(t.Discs, Disc{kind, d})
}

func sameIDs(a, b []idx.ValidatorID) bool {
	if len(a) != len(b) {
		return false
	}
	for i := range a {
		if a[i] != b[i] {
			return false
		}
	}
	return true
}

// Run drives a fresh instance over the DAG with the given order kind per epoch, stepping the reference
// model in lock-step and recording every disagreement. withRef=false only records the instance's output.
type RunOpts struct {
	Kinds      func(epochIdx int) OrderKind
	Inst       InstCfg
	WithRef    bool
	WarmReset  bool                                      // the instance first lives through an unrelated warm-up epoch (other validators, forks, blocks) and is then Reset() to the DAG's first epoch
	OnEvent    func(t *Trace, e *Ev, newBlocks []*Block) // called after every accepted event
	ProbeRoots bool                                      // additionally ask the store's root registry whether each Atropos is a root (touches its cache)
}

func Run(d *DAG, r *rand.Rand, o RunOpts) *Trace {
	kinds, icfg, withRef := o.Kinds, o.Inst, o.WithRef
	cfg := d.Cfg
	policy := cfg.Policy()
	var in *Inst
	if o.WarmReset {
		var wp interface{}
		func() {
			defer func() { wp = recover() }()
			in = warmedUp(r, cfg, policy, icfg)
		}()
		if wp != nil {
			// the warm-up epoch (generated through a real instance) failed: the code under test refused an event it had built
			// itself or raised its crit handler - a finding about the code, reported as a trace without blocks
			t := &Trace{}
			t.add(DEventRejected, "phase", "warm-up epoch of the warm-reset instance", "err", fmt.Sprint(wp))
			return t
		}
	} else {
		in = NewInst(cfg.Plans[0].Epoch, cfg.Plans[0].Validators(), policy, icfg)
	}
	t := &Trace{Inst: in}
	var fpParts []interface{}
	for ei, ed := range d.Epochs {
		plan := ed.Plan
		if in.Epoch() != plan.Epoch {
			t.add(DSealMismatch, "want_epoch", plan.Epoch, "have_epoch", in.Epoch(), "at", "epoch start")
			break
		}
		var ref *Ref
		if withRef {
			ref = NewRef(plan.IDs, plan.Weights)
			t.Refs = append(t.Refs, ref)
		}
		order := Order(r, ed.Events, kinds(ei))
		fpParts = append(fpParts, RootArrivalFP(order))
		delivered := map[hash.Event]idx.Frame{}
		lastBlockFrame := idx.Frame(0)
		lastAtroposLamport := idx.Lamport(0)
		forksSoFar := false
		seenSeq := map[[2]uint64]hash.Event{}
		for _, e := range order {
			if in.Epoch() != plan.Epoch {
				// sealed: left-over events of the old epoch are dropped, as the epoch checker would do
				t.Skipped++
				continue
			}
			k := [2]uint64{uint64(e.Creator()), uint64(e.Seq())}
			if o, ok := seenSeq[k]; ok && o != e.ID() {
				forksSoFar = true
			}
			seenSeq[k] = e.ID()
			if withRef {
				max, allowed, err := ref.Frames(e)
				if err != nil {
					panic(fmt.Errorf("harness: order is not parents-first: %v", err))
				}
				if max != e.Frame() || !allowed {
					t.add(DFrameNotMax, "event", e.Name, "built_frame", e.Frame(), "ref_max_frame", max, "ref_allowed", allowed)
				}
			}
			if sp := e.SelfParent(); sp != nil {
				if spe := in.In.GetEvent(*sp); spe != nil && e.Frame() >= spe.Frame()+2 {
					t.JumpRoots++
				}
			} else if e.Frame() >= 2 {
				t.JumpRoots++
			}
			nb := len(in.Blocks)
			err := in.Process(e)
			t.Processed++
			if err != nil {
				kind := DEventRejected
				if in.Crit != nil {
					kind = DCrit
				}
				t.add(kind, "event", e.Name, "error", err.Error(), "epoch", plan.Epoch)
				return t.finish()
			}
			got := in.Blocks[nb:]
			if o.OnEvent != nil {
				o.OnEvent(t, e, got)
			}
			// C02 invariants that need no reference
			for _, b := range got {
				if b.Epoch == plan.Epoch {
					if b.Frame != lastBlockFrame+1 {
						t.add(DFrameNumber, "impl_frame", b.Frame, "previous_block_frame", lastBlockFrame, "epoch", b.Epoch, "why", "blocks of an epoch must carry consecutive frames starting at 1")
					}
					lastBlockFrame = b.Frame
					if lastAtroposLamport > b.Atropos.Lamport() {
						t.LamportInversions++ // this block's Atropos has a smaller Lamport time than the previous block's
					}
					lastAtroposLamport = b.Atropos.Lamport()
				}
				if b.Dup {
					t.add(DDeliveredTwice, "frame", b.Frame, "epoch", b.Epoch, "within", "one block")
				}
				for _, id := range b.Events {
					if f, dup := delivered[id]; dup {
						t.add(DDeliveredTwice, "frame", b.Frame, "earlier_frame", f, "epoch", b.Epoch, "event", id.String())
					}
					delivered[id] = b.Frame
				}
				if len(b.Events) > 1 {
					t.MultiEv++
				}
				if len(b.Events) == 0 {
					t.EmptyBlk++
				}
			}
			if !withRef {
				continue
			}
			rb, sealed := ref.Add(e, func(b *RBlock) bool { return policy(plan.Epoch, b.Frame) != nil })
			if ref.Outside != "" {
				t.Outside = ref.Outside
				return t.finish()
			}
			if len(got) != len(rb) {
				t.add(DBlockCount, "event", e.Name, "impl_blocks", len(got), "ref_blocks", len(rb), "epoch", plan.Epoch, "ref_decided", ref.Decided())
				return t.finish()
			}
			for i := range rb {
				if got[i].Frame != rb[i].Frame || got[i].Epoch != plan.Epoch {
					t.add(DFrameNumber, "impl_frame", got[i].Frame, "want_frame", rb[i].Frame, "impl_epoch", got[i].Epoch, "epoch", plan.Epoch)
				}
				if got[i].Atropos != rb[i].Atropos {
					t.add(DAtropos, "frame", rb[i].Frame, "epoch", plan.Epoch, "impl", got[i].Atropos.String(), "ref", rb[i].Atropos.String())
					return t.finish()
				}
				if !sameIDs(got[i].Cheaters, rb[i].Cheaters) {
					t.add(DCheaters, "frame", rb[i].Frame, "epoch", plan.Epoch, "impl", got[i].Cheaters, "ref", rb[i].Cheaters, "canonical", ref.Sorted())
				}
				if len(rb[i].Cheaters) > 0 {
					t.CheatBlk++
				} else if forksSoFar {
					t.HiddenFork++
				}
				gs := map[hash.Event]bool{}
				for _, id := range got[i].Events {
					gs[id] = true
				}
				same := len(gs) == len(rb[i].Events)
				for id := range rb[i].Events {
					if !gs[id] {
						same = false
					}
				}
				if !same {
					t.add(DDelivered, "frame", rb[i].Frame, "epoch", plan.Epoch, "impl_n", len(gs), "ref_n", len(rb[i].Events))
				}
				// atropos is a root of that frame by the store's registry
				isRoot := false
				if o.ProbeRoots && in.Epoch() == plan.Epoch {
					for _, rt := range in.Store.GetFrameRoots(rb[i].Frame) {
						if rt.ID == got[i].Atropos {
							isRoot = true
						}
					}
				}
				if !o.ProbeRoots {
					isRoot = true
				}
				if in.Epoch() == plan.Epoch && !isRoot {
					t.add(DAtroposNotRoot, "frame", rb[i].Frame, "epoch", plan.Epoch, "by", "GetFrameRoots")
				}
				ai, _ := ref.Index(got[i].Atropos)
				refRoot := false
				for _, x := range ref.Roots(rb[i].Frame) {
					if x == ai {
						refRoot = true
					}
				}
				if !refRoot {
					t.add(DAtroposNotRoot, "frame", rb[i].Frame, "epoch", plan.Epoch, "by", "reference")
				}
				// ancestors delivered in the same or an earlier block
				for _, id := range got[i].Events {
					x, _ := ref.Index(id)
					for _, p := range ref.Ev(x).Parents {
						if pf, ok := delivered[ref.Ev(p).ID]; !ok || pf > got[i].Frame {
							t.add(DParentLater, "frame", rb[i].Frame, "event", id.String())
						}
					}
				}
			}
			if sealed != (in.Epoch() != plan.Epoch) {
				t.add(DSealMismatch, "epoch", plan.Epoch, "ref_sealed", sealed, "impl_epoch", in.Epoch(), "event", e.Name)
				return t.finish()
			}
		}
		if withRef {
			t.Ties += ref.Ties
			t.Exact += ref.Exact
		}
		if ed.Sealed && in.Epoch() == plan.Epoch {
			t.add(DSealMismatch, "epoch", plan.Epoch, "generator", "sealed", "instance", "did not seal after all events of the epoch")
			break
		}
	}
	t.RootOrderFP = hashParts(fpParts)
	return t.finish()
}

func hashParts(p []interface{}) uint64 {
	var h uint64 = 1469598103934665603
	for _, x := range p {
		for _, c := range []byte(fmt.Sprint(x)) {
			h = (h ^ uint64(c)) * 1099511628211
		}
	}
	return h
}

func (t *Trace) finish() *Trace {
	t.Blocks = t.Inst.Blocks
	return t
}

// BlocksEqual compares two block logs (C01): same epochs, frames, Atropoi and cheater lists.
func BlocksEqual(a, b []*Block) (bool, string) {
	if len(a) != len(b) {
		return false, fmt.Sprintf("block counts differ: %d vs %d", len(a), len(b))
	}
	for i := range a {
		if a[i].Epoch != b[i].Epoch || a[i].Frame != b[i].Frame || a[i].Atropos != b[i].Atropos || !sameIDs(a[i].Cheaters, b[i].Cheaters) || a[i].Sealed != b[i].Sealed {
			return false, fmt.Sprintf("block %d differs: (ep %d f %d %s %v) vs (ep %d f %d %s %v)", i, a[i].Epoch, a[i].Frame, a[i].Atropos.String(), a[i].Cheaters, b[i].Epoch, b[i].Frame, b[i].Atropos.String(), b[i].Cheaters)
		}
	}
	return true, ""
}

// warmedUp returns an instance that has processed a small unrelated epoch (4 validators, forks, a few
// blocks) at epoch 1000 and was then Reset() to the first epoch of cfg.
func warmedUp(r *rand.Rand, cfg *GenCfg, policy SealPolicy, icfg InstCfg) *Inst {
	plans := RandomPlans(r, 1, -4, false, CheatBelowThird)
	plans[0].Epoch = 1000
	for k := range plans[0].Lag {
		plans[0].Lag[k] = 0
	}
	wcfg := &GenCfg{Plans: plans, EventsPer: 60, MinParents: 1, MaxParents: 4, ForkProb: 0.2}
	wd, _, err := Generate(r, wcfg)
	if err != nil {
		panic(fmt.Errorf("warm-up generation: %v", err))
	}
	in := NewInst(1000, plans[0].Validators(), policy, icfg)
	for _, e := range wd.Epochs[0].Events {
		if err := in.Process(e); err != nil {
			panic(fmt.Errorf("warm-up event rejected: %v", err))
		}
	}
	in.Blocks = nil
	if err := in.Reset(cfg.Plans[0].Epoch, cfg.Plans[0].Validators()); err != nil {
		panic(fmt.Errorf("Reset failed: %v", err))
	}
	return in
}
