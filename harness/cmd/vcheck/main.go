// vcheck runs the monitor workload of one property against the lachesis-base tree it was built with.
package main

import (
	"flag"
	"fmt"
	"os"
	"sort"
	"strconv"

	"verif/checks"
	"verif/ev"
)

func main() {
	tier := flag.String("tier", "", "quick|thorough (default $VERIF_TIER or quick)")
	seed := flag.Int64("seed", -1, "PRNG seed (default $VERIF_SEED or 1)")
	flag.Usage = func() {
		fmt.Fprintln(os.Stderr, "usage: vcheck [-tier quick|thorough] [-seed N] <ID>")
		ids := []string{}
		for id := range checks.Registry {
			ids = append(ids, id)
		}
		sort.Strings(ids)
		fmt.Fprintln(os.Stderr, "checks:", ids)
	}
	flag.Parse()
	if flag.NArg() != 1 {
		flag.Usage()
		os.Exit(2)
	}
	id := flag.Arg(0)
	if *tier == "" {
		*tier = os.Getenv("VERIF_TIER")
	}
	if *tier != "thorough" {
		*tier = "quick"
	}
	if *seed < 0 {
		*seed = 1
		if s := os.Getenv("VERIF_SEED"); s != "" {
			if v, err := strconv.ParseInt(s, 10, 64); err == nil {
				*seed = v
			}
		}
	}
	ck, ok := checks.Registry[id]
	if !ok {
		fmt.Printf("BROKEN: no check registered for %s\n", id)
		os.Exit(2)
	}
	c := ev.New(id, *tier, *seed, ck.Level)
	ck.Run(c)
	os.Exit(c.Finish())
}
