// vcheck runs the monitor workload of one property against the lachesis-base tree it was built with.
package main

import (
	"flag"
	"fmt"
	"os"
	"runtime"
	"sort"
	"strconv"
	"time"

	"verif/checks"
	"verif/ev"
)

func main() {
	tier := flag.String("tier", "", "quick|thorough (default $VERIF_TIER or quick)")
	seed := flag.Int64("seed", -1, "PRNG seed (default $VERIF_SEED or 1)")
	flag.Usage = func() {
		fmt.Fprintln(os.Stderr, "usage: vcheck [-tier quick|thorough] [-seed N] <ID>")
		ids := []string{}
		for id := range checks.Registry {
			ids = append(ids, id)
		}
		sort.Strings(ids)
		fmt.Fprintln(os.Stderr, "checks:", ids)
	}
	flag.Parse()
	if flag.NArg() != 1 {
		flag.Usage()
		os.Exit(2)
	}
	id := flag.Arg(0)
	if *tier == "" {
		*tier = os.Getenv("VERIF_TIER")
	}
	if *tier != "thorough" {
		*tier = "quick"
	}
	if *seed < 0 {
		*seed = 1
		if s := os.Getenv("VERIF_SEED"); s != "" {
			if v, err := strconv.ParseInt(s, 10, 64); err == nil {
				*seed = v
			}
		}
	}
	ck, ok := checks.Registry[id]
	if !ok {
		fmt.Printf("BROKEN: no check registered for %s\n", id)
		os.Exit(2)
	}
	c := ev.New(id, *tier, *seed, ck.Level)
	// memory watchdog: the sandbox has no memory limit, and a changed tree may loop or allocate without bound inside a
	// single library call (nothing the workload could recover from). What the unchanged tree needs stays below a few GB
	// per check; far beyond that the run is ended with a verdict instead of waiting for the kernel's OOM killer.
	go func() {
		limit := uint64(28) << 30
		if v, err := strconv.ParseUint(os.Getenv("VERIF_MEM_LIMIT_GB"), 10, 64); err == nil && v > 0 {
			limit = v << 30
		}
		var ms runtime.MemStats
		for {
			time.Sleep(2 * time.Second)
			runtime.ReadMemStats(&ms)
			if ms.Sys > limit {
				c.Violation("library-call-allocates-without-bound", map[string]interface{}{"go_runtime_sys_bytes": ms.Sys, "heap_in_use": ms.HeapInuse, "limit_bytes": limit,
					"why": "the process grew far beyond anything the workload of this check allocates on the unchanged tree; the run was ended by the harness' memory watchdog"})
				fmt.Printf("SUMMARY property=%s tier=%s seed=%d ended by the memory watchdog\n", id, *tier, *seed)
				os.Exit(1)
			}
		}
	}()
	ck.Run(c)
	os.Exit(c.Finish())
}
