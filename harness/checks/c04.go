package checks

import (
	"fmt"
	"math/rand"

	"github.com/Fantom-foundation/lachesis-base/hash"
	"github.com/Fantom-foundation/lachesis-base/inter/idx"

	"verif/cons"
	"verif/ev"
)

// C04 Frame rule: processing and building agree with the specification.
func init() { register("C04", "exploration", runC04) }

// candidate builds a not-yet-identified event of creator c on top of sp with the given other parents.
func c04candidate(epoch idx.Epoch, creator idx.ValidatorID, sp *cons.Ev, others []*cons.Ev) *cons.Ev {
	e := &cons.Ev{}
	e.SetEpoch(epoch)
	e.SetCreator(creator)
	var ps hash.Events
	lam := idx.Lamport(0)
	if sp != nil {
		ps = append(ps, sp.ID())
		e.SetSeq(sp.Seq() + 1)
		lam = sp.Lamport()
	} else {
		e.SetSeq(1)
	}
	for _, o := range others {
		ps = append(ps, o.ID())
		if o.Lamport() > lam {
			lam = o.Lamport()
		}
	}
	e.SetParents(ps)
	e.SetLamport(lam + 1)
	return e
}

func runC04(c *ev.Ctx) {
	c.Rule = "DAGs generated through a real instance (forks <1/3, lag, sleeper regime). A test instance T receives the events by Process only. At seeded points (preferring events that start a new frame) a restarted copy of T (fresh Build counter, default-size forkless-cause cache) gets a burst of K speculative Builds " +
		"(K in {0,1,2,17,254,255,256,257,300,600; thorough also 1000,3000}; in every eighth DAG one frame-starting event gets K=65536: a self-parent-only decoy with the real event's Lamport time, 65535 parentless fillers, then the real event as build number 2^16; variants: self-parent only, random parent subsets, the full event repeated, candidates of other creators) followed (in a third of the points after re-creating the consensus object over the same vecfc.Index object, which restarts the Build counter) by the Build of the real event: EVERY build's frame must equal the reference's highest allowed frame (cap 100). " +
		"Process side: on throw-away copies, clones of valid events with fresh IDs and claimed frame in {0,1,sp-1,sp..max,max+1,max+2,max+100,2^31-3} are accepted iff the reference allows the frame. One long-lag case per 40 DAGs: a validator silent for >100 frames then building (Build must give self-parent+100; Process accepts up to the true maximum and rejects maximum+1). " +
		"non-trivial = distinct (DAG, point) where the real event's highest allowed frame exceeds its self-parent's frame, or the build was preceded by >=256 speculative builds"
	c.Assumptions = []string{"reference frame rule = C04 statement evaluated on the graph closure", "cheaters < 1/3"}
	nD := c.Pick(120, 1500)
	ks := []int{0, 1, 2, 17, 254, 255, 256, 257, 300, 600}
	if !c.Quick() {
		ks = append(ks, 1000, 3000)
	}
	c.Parallel(nD, 0, func(i int) {
		if i%40 == 7 {
			c04LongLag(c, i)
			return
		}
		r := c.Rand("dag", i)
		o := &campOpts{maxN: 7, minEvents: 40, maxEvents: c.Pick(120, 250), maxEpochs: 1, cheat: cons.CheatBelowThird}
		cfg := genCfgFor(r, i, o)
		if cfg.EventsPer > o.maxEvents {
			cfg.EventsPer = o.maxEvents
		}
		d, _, err := cons.Generate(r, cfg)
		if err != nil {
			c.Violation("built-event-rejected", map[string]interface{}{"case": i, "error": err.Error(), "dag": describeDAG(d)})
			return
		}
		plan := d.Epochs[0].Plan
		evs := d.Epochs[0].Events
		T := cons.NewInst(plan.Epoch, plan.Validators(), nil, cons.InstCfg{Index: cons.IdxDefault})
		ref := cons.NewRef(plan.IDs, plan.Weights)
		byID := map[hash.Event]*cons.Ev{}
		points := 0
		for k, e := range evs {
			var sp *cons.Ev
			if e.SelfParent() != nil {
				sp = byID[*e.SelfParent()]
			}
			isRoot := sp == nil || sp.Frame() != e.Frame()
			take := points < 10 && ((isRoot && r.Intn(4) == 0) || r.Intn(40) == 0)
			kk := ks
			if i%8 == 3 && points == 0 && isRoot && sp != nil && len(e.Parents()) > 1 {
				// counter-wrap point: a decoy build, 65535 parentless fillers, then the real event as build number 2^16
				take, kk = true, []int{c04Wrap}
			}
			if take {
				points++
				if !c04Point(c, r, i, k, d, T, ref, e, sp, byID, kk) {
					return
				}
			}
			if err := T.Process(e); err != nil {
				c.Violation(cons.DEventRejected, map[string]interface{}{"case": i, "event": e.Name, "error": err.Error(), "dag": describeDAG(d)})
				return
			}
			ref.Add(e, nil)
			byID[e.ID()] = e
		}
		c.Eval(1)
		if c.WantSample() {
			s := describeDAG(d)
			s["case"], s["points"] = i, points
			c.Sample(s)
		}
	})
}

// c04Wrap is the burst length at which a 16-bit temporary-ID counter would hand out the first ID again.
const c04Wrap = 1 << 16

// c04Point runs the build burst and the process-side frame sweep at one DAG state. Returns false after a violation.
func c04Point(c *ev.Ctx, r *rand.Rand, caseN, k int, d *cons.DAG, T *cons.Inst, ref *cons.Ref, e, sp *cons.Ev, byID map[hash.Event]*cons.Ev, ks []int) bool {
	plan := d.Epochs[0].Plan
	var others []*cons.Ev
	for i, p := range e.Parents() {
		if i == 0 && sp != nil {
			continue
		}
		others = append(others, byID[p])
	}
	// ---- build burst on a restarted copy (fresh build counter)
	B := T.Restart()
	K := ks[r.Intn(len(ks))]
	variantMode := r.Intn(3) // 0: self-parent only (the F1 shape), 1: mixed, 2: other creators too
	desc := func() map[string]interface{} {
		return map[string]interface{}{"case": caseN, "event_index": k, "event": e.Name, "speculative_builds_before": K, "variant_mode": variantMode, "dag": describeDAG(d)}
	}
	check := func(cand *cons.Ev, what string, n int) bool {
		wantMax, _, err := ref.Frames(cand)
		if err != nil {
			panic(err)
		}
		if err := B.Build(cand); err != nil {
			m := desc()
			m["build"], m["n"], m["error"] = what, n, err.Error()
			c.Violation("build-failed", m)
			return false
		}
		c.Count("builds_compared", 1)
		if cand.Frame() != wantMax {
			m := desc()
			m["build"], m["build_number"], m["built_frame"], m["reference_highest_allowed"] = what, n, cand.Frame(), wantMax
			cls := "build-frame-wrong"
			if n > 0 {
				cls = "build-frame-depends-on-earlier-builds"
				// is it really history dependence? ask a fresh copy for the same candidate as its first build
				F := T.Restart()
				c2 := c04candidate(plan.Epoch, cand.Creator(), nil, nil)
				c2.SetSeq(cand.Seq())
				c2.SetParents(cand.Parents())
				c2.SetLamport(cand.Lamport())
				if err := F.Build(c2); err == nil && c2.Frame() == cand.Frame() {
					cls = "build-frame-wrong"
				} else {
					m["frame_when_built_first"] = c2.Frame()
				}
			}
			c.Violation(cls, m)
			return false
		}
		return true
	}
	tipsOf := func(cr idx.ValidatorID) *cons.Ev {
		var best *cons.Ev
		for _, x := range byID {
			if x.Creator() == cr && (best == nil || x.Seq() > best.Seq()) {
				best = x
			}
		}
		return best
	}
	for n := 0; n < K; n++ {
		var cand *cons.Ev
		switch {
		case K == c04Wrap && n > 0:
			cand = c04candidate(plan.Epoch, e.Creator(), nil, nil) // parentless: asks the forkless-cause cache nothing, so evicts nothing
		case K == c04Wrap:
			cand = c04candidate(plan.Epoch, e.Creator(), sp, nil)
			cand.SetLamport(e.Lamport())
		case variantMode == 0 || (variantMode == 1 && n%3 == 0):
			cand = c04candidate(plan.Epoch, e.Creator(), sp, nil)
			if n%2 == 0 {
				cand.SetLamport(e.Lamport()) // same Lamport as the real event, fewer parents
			}
		case variantMode == 1 && n%3 == 1:
			var sub []*cons.Ev
			for _, o := range others {
				if r.Intn(2) == 0 {
					sub = append(sub, o)
				}
			}
			cand = c04candidate(plan.Epoch, e.Creator(), sp, sub)
		case variantMode == 1:
			cand = c04candidate(plan.Epoch, e.Creator(), sp, others)
		default:
			cr := plan.IDs[r.Intn(len(plan.IDs))]
			csp := tipsOf(cr)
			var sub []*cons.Ev
			for _, o := range others {
				if o.Creator() != cr && r.Intn(2) == 0 {
					sub = append(sub, o)
				}
			}
			if cr == e.Creator() {
				csp = sp
			}
			cand = c04candidate(plan.Epoch, cr, csp, sub)
		}
		// only the first few and the last few speculative builds are compared in full (all are executed)
		if n < 3 || n >= K-3 || n%97 == 0 {
			if !check(cand, "speculative", n) {
				return false
			}
		} else if err := B.Build(cand); err != nil {
			m := desc()
			m["error"] = err.Error()
			c.Violation("build-failed", m)
			return false
		}
	}
	real := c04candidate(plan.Epoch, e.Creator(), sp, others)
	if K != c04Wrap && r.Intn(3) == 0 && len(others) > 0 {
		// speculative builds carrying the real event's Lamport time but fewer parents, then the consensus object is
		// re-created over the SAME index object: the Build counter starts again, so the same temporary IDs are handed
		// out a second time, now for other parents
		for n := 0; n < 1+r.Intn(3); n++ {
			dec := c04candidate(plan.Epoch, e.Creator(), sp, others[:r.Intn(len(others))])
			dec.SetLamport(real.Lamport())
			if err := B.Build(dec); err != nil {
				m := desc()
				m["error"] = err.Error()
				c.Violation("build-failed", m)
				return false
			}
		}
		B = B.RestartKeepIndex()
		c.Count("restarts_keeping_the_index_object_between_builds", 1)
	}
	if K != c04Wrap && r.Intn(3) == 0 {
		// an emitter that builds a draft, then adds parents to the SAME object (which now carries the
		// draft's ID) and builds again
		draft := c04candidate(plan.Epoch, e.Creator(), sp, nil)
		draft.SetLamport(real.Lamport())
		if err := B.Build(draft); err != nil {
			m := desc()
			m["error"] = err.Error()
			c.Violation("build-failed", m)
			return false
		}
		draft.SetParents(real.Parents())
		real = draft
		c.Count("rebuilds_of_an_already_built_object", 1)
	}
	if !check(real, "real event after the burst", K) {
		return false
	}
	if sp == nil || real.Frame() > sp.Frame() || K >= 256 {
		c.Nontrivial(ev.Hash(d.FP, k))
	}
	if K >= 255 {
		c.Count("bursts_of_255_or_more", 1)
	}
	if K == c04Wrap {
		c.Count("bursts_of_65536_builds_before_a_frame_starting_event", 1)
	}
	// ---- process side: claimed-frame sweep on throw-away copies
	trueMax, _ := ref.TrueMaxFrame(e)
	spf := idx.Frame(0)
	if sp != nil {
		spf = sp.Frame()
	}
	claims := map[idx.Frame]bool{0: true, 1: true, trueMax + 1: true, trueMax + 2: true, trueMax + 100: true, 1<<31 - 3: true}
	if spf > 0 {
		claims[spf-1] = true
	}
	for f := spf; f <= trueMax; f++ {
		claims[f] = true
	}
	for f := range claims {
		cl := e.Clone()
		cl.SetFrame(f)
		cl.SetHashID(uint64(f) + 99)
		_, allowed, err := ref.Frames(cl)
		if err != nil {
			panic(err)
		}
		P := T.Restart()
		perr := P.Process(cl)
		c.Count("claimed_frames_checked", 1)
		if allowed {
			c.Count("claimed_frames_allowed", 1)
		}
		if (perr == nil) != allowed || P.Crit != nil {
			m := desc()
			m["claimed_frame"], m["self_parent_frame"], m["reference_true_max"], m["reference_allows"], m["process_error"] = f, spf, trueMax, allowed, fmt.Sprint(perr)
			c.Violation("process-accepts-iff-allowed-broken", m)
			return false
		}
	}
	return true
}

// c04LongLag: three of four equal validators run for >100 frames while the fourth is silent after its first
// event; its next event (all tips as parents) has a true maximum above self-parent+100.
func c04LongLag(c *ev.Ctx, caseN int) {
	r := c.Rand("longlag", caseN)
	ids := []idx.ValidatorID{11, 22, 33, 44}
	ws := []uint64{1, 1, 1, 1}
	plan := &cons.EpochPlan{Epoch: 1, IDs: ids, Weights: ws, Cheaters: map[int]bool{}, Lag: []float64{0, 0, 0, 0}}
	g := cons.NewInst(1, plan.Validators(), nil, cons.InstCfg{})
	ref := cons.NewRef(ids, ws)
	var tips [4]*cons.Ev
	add := func(cr int, others []*cons.Ev) *cons.Ev {
		e := c04candidate(1, ids[cr], tips[cr], others)
		if err := g.Build(e); err != nil {
			panic(err)
		}
		e.SetHashID(0)
		e.Name = fmt.Sprintf("%c%d", 'a'+cr, e.Seq())
		if err := g.Process(e); err != nil {
			c.Violation("built-event-rejected", map[string]interface{}{"case": caseN, "event": e.Name, "error": err.Error(), "scenario": "long lag"})
			return nil
		}
		ref.Add(e, nil)
		tips[cr] = e
		return e
	}
	silent := r.Intn(4)
	if add(silent, nil) == nil {
		return
	}
	target := idx.Frame(104 + r.Intn(8))
	for guard := 0; guard < 5000; guard++ {
		cr := r.Intn(4)
		if cr == silent {
			continue
		}
		var others []*cons.Ev
		for o := 0; o < 4; o++ {
			if o != cr && o != silent && tips[o] != nil && r.Intn(3) > 0 {
				others = append(others, tips[o])
			}
		}
		e := add(cr, others)
		if e == nil {
			return
		}
		if e.Frame() >= target {
			break
		}
	}
	var others []*cons.Ev
	for o := 0; o < 4; o++ {
		if o != silent {
			others = append(others, tips[o])
		}
	}
	sp := tips[silent]
	cand := c04candidate(1, ids[silent], sp, others)
	trueMax, _ := ref.TrueMaxFrame(cand)
	if trueMax <= sp.Frame()+100 {
		c.Inconclusive(1)
		return
	}
	c.Eval(1)
	c.Count("long_lag_cases", 1)
	if err := g.Build(cand); err != nil || cand.Frame() != sp.Frame()+100 {
		c.Violation("build-cap-100-wrong", map[string]interface{}{"case": caseN, "built_frame": cand.Frame(), "self_parent_frame": sp.Frame(), "true_max": trueMax, "err": fmt.Sprint(err)})
		return
	}
	for _, f := range []idx.Frame{sp.Frame() + 99, sp.Frame() + 100, sp.Frame() + 101, trueMax, trueMax + 1} {
		cl := c04candidate(1, ids[silent], sp, others)
		cl.SetFrame(f)
		cl.SetHashID(uint64(f))
		_, allowed, _ := ref.Frames(cl)
		P := g.Restart()
		perr := P.Process(cl)
		c.Count("claimed_frames_checked", 1)
		if (perr == nil) != allowed {
			c.Violation("process-accepts-iff-allowed-broken", map[string]interface{}{"case": caseN, "scenario": "long lag", "claimed_frame": f, "self_parent_frame": sp.Frame(), "true_max": trueMax, "reference_allows": allowed, "process_error": fmt.Sprint(perr)})
			return
		}
	}
	c.Nontrivial(ev.Hash("longlag", caseN, trueMax))
}
