package checks

import (
	"fmt"
	"math/rand"
	"os"
	"os/exec"
	"path/filepath"
	"regexp"
	"runtime"
	"sort"
	"strings"
	"sync"
	"time"

	"github.com/anishathalye/porcupine"

	"github.com/Fantom-foundation/lachesis-base/gossip/dagordering"
	"github.com/Fantom-foundation/lachesis-base/hash"
	"github.com/Fantom-foundation/lachesis-base/inter/dag"
	"github.com/Fantom-foundation/lachesis-base/inter/idx"
	"github.com/Fantom-foundation/lachesis-base/kvdb"
	"github.com/Fantom-foundation/lachesis-base/kvdb/flushable"
	"github.com/Fantom-foundation/lachesis-base/kvdb/memorydb"
	"github.com/Fantom-foundation/lachesis-base/utils/datasemaphore"
	"github.com/Fantom-foundation/lachesis-base/utils/wlru"

	"verif/cons"
	"verif/ev"
	"verif/hist"
	"verif/memdisk"
)

// C28 Thread-safe components are race free and linearizable.
func init() { register("C28", "exploration", runC28) }

var c28pkgs = []string{"kvdb/flushable", "utils/wlru", "utils/simplewlru", "utils/datasemaphore", "gossip/dagordering"}

func runC28(c *ev.Ctx) {
	c.Rule = "(1) race detector: the workload binary is rebuilt with -race and run as child processes with GOMAXPROCS in {2,4,16}; 2-8 goroutines mix ALL public operations (incl. size/statistics accessors, Stat, snapshots, iterators, batches) on Flushable, LazyFlushable, SyncedPool (+GetUnderlying readers), wlru.Cache (all methods), DataSemaphore and EventsBuffer; GORACE=halt_on_error=0 with a log file; every 'WARNING: DATA RACE' block with a frame in the five packages is a violation, de-duplicated by the pair of innermost library frames. " +
		"(2) linearizability: many short histories (3-4 clients x 5-9 operations, few keys, start barrier, seeded yields/spins) recorded at the client boundary with a logical clock and checked with porcupine against small sequential models: Flushable and LazyFlushable (put/delete/get/has/flush/drop/NotFlushedPairs), SyncedPool (per database: put/delete/get, pool flush as one flush per database inside the call interval, reads of the underlying store), wlru (full LRU model), DataSemaphore (try/release/processing/available), EventsBuffer (push result, IsBuffered, Total, Clear over a 4-event DAG). " +
		"non-trivial = distinct histories (by call/return order fingerprint) that contain at least one overlapping pair of operations from different clients"
	c.Assumptions = []string{"the race detector only sees races on executed paths", "porcupine timeouts (30 s per history) are inconclusive, not violations", "pool flush is specified per database (weakest reading of the property)"}
	c28Races(c)
	c28Lin(c)
}

// ---------------------------------------------------------------- (1) race detector

func c28Races(c *ev.Ctx) {
	bin := os.Getenv("VCHECK_RACE_BIN")
	if bin == "" {
		fmt.Println("BROKEN: VCHECK_RACE_BIN is not set (bin/check builds the -race binary for C28)")
		return
	}
	dir := filepath.Join(ev.Root, "logs", fmt.Sprintf("race-C28-%d", os.Getpid()))
	_ = os.RemoveAll(dir)
	_ = os.MkdirAll(dir, 0o755)
	defer os.RemoveAll(dir)
	procs := []string{"2", "4", "16"}
	repeats := c.Pick(1, 4)
	type result struct {
		out []byte
		err error
	}
	var wg sync.WaitGroup
	results := make([]result, len(procs)*repeats)
	for k := range results {
		wg.Add(1)
		go func(k int) {
			defer wg.Done()
			cmd := exec.Command(bin, "-tier", c.Tier, "-seed", fmt.Sprint(c.Seed+int64(k)*1000), "C28race")
			cmd.Env = append(os.Environ(), "VERIF_NO_EVIDENCE=1", "GOMAXPROCS="+procs[k%len(procs)],
				"GORACE=halt_on_error=0 log_path="+filepath.Join(dir, fmt.Sprintf("r%d", k)))
			out, err := cmd.CombinedOutput()
			results[k] = result{out, err}
		}(k)
	}
	wg.Wait()
	for k, r := range results {
		for _, line := range strings.Split(string(r.out), "\n") {
			var name string
			var n int64
			if _, err := fmt.Sscanf(line, "COUNTER %s %d", &name, &n); err == nil {
				c.Count(name, n)
			}
		}
		if r.err != nil {
			if ee, ok := r.err.(*exec.ExitError); !ok || ee.ExitCode() != 66 { // 66 = race detector's exit code when races were reported
				tail := string(r.out)
				if len(tail) > 3000 {
					tail = tail[len(tail)-3000:]
				}
				c.Violation("race-workload-process-died", map[string]interface{}{"run": k, "error": r.err.Error(), "output_tail": tail})
			}
		}
		c.Eval(1)
		c.Count("race_detector_child_runs", 1)
	}
	files, _ := filepath.Glob(filepath.Join(dir, "r*"))
	frameRe := regexp.MustCompile(`^\s+(github\.com/Fantom-foundation/lachesis-base/[^\s(]+(?:\([^)]*\))?[^\s(]*)\(`)
	seen := map[string]bool{}
	total := 0
	for _, f := range files {
		b, err := os.ReadFile(f)
		if err != nil {
			continue
		}
		for _, blk := range strings.Split(string(b), "==================") {
			if !strings.Contains(blk, "WARNING: DATA RACE") {
				continue
			}
			total++
			var sig []string
			inPkg := false
			for _, part := range strings.Split(strings.TrimSpace(blk), "\n\n") {
				if !strings.Contains(part, " by goroutine ") && !strings.Contains(part, " by main goroutine") {
					continue
				}
				first := ""
				for _, line := range strings.Split(part, "\n") {
					if m := frameRe.FindStringSubmatch(line); m != nil {
						fn := strings.TrimPrefix(m[1], "github.com/Fantom-foundation/lachesis-base/")
						for _, p := range c28pkgs {
							if strings.HasPrefix(fn, p+".") {
								inPkg = true
							}
						}
						if first == "" {
							first = fn
						}
					}
				}
				if first != "" {
					sig = append(sig, first)
				}
				if len(sig) == 2 {
					break
				}
			}
			if !inPkg {
				c.Count("race_reports_outside_the_five_packages", 1)
				continue
			}
			sort.Strings(sig)
			cls := "data-race: " + strings.Join(sig, " ~ ")
			if seen[cls] {
				continue
			}
			seen[cls] = true
			if len(blk) > 6000 {
				blk = blk[:6000]
			}
			c.Violation(cls, map[string]interface{}{"report": blk})
		}
	}
	c.Count("race_reports_total", int64(total))
	c.Count("race_reports_distinct_pairs", int64(len(seen)))
}

// ---------------------------------------------------------------- (2) linearizability

type c28in struct {
	Op string
	K  int
	V  int
	W  uint
}

func (i c28in) String() string { return fmt.Sprintf("%s(k=%d v=%d w=%d)", i.Op, i.K, i.V, i.W) }

func c28check(c *ev.Ctx, name string, model porcupine.Model, ops []porcupine.Operation, caseN int, diagnose ...func([]porcupine.Operation) string) {
	res := porcupine.CheckOperationsTimeout(model, ops, 30*time.Second)
	c.Eval(1)
	c.Count("histories_"+name, 1)
	ov := hist.Overlaps(ops)
	if ov {
		c.Count("histories_with_overlap_"+name, 1)
	}
	switch res {
	case porcupine.Unknown:
		c.Inconclusive(1)
		c.Count("histories_checker_timeout", 1)
	case porcupine.Illegal:
		var hs []string
		sort.Slice(ops, func(a, b int) bool { return ops[a].Call < ops[b].Call })
		for _, o := range ops {
			hs = append(hs, fmt.Sprintf("client %d [%d,%d] %v -> %v", o.ClientId, o.Call, o.Return, o.Input, o.Output))
		}
		cls := "history-not-linearizable:" + name
		if len(diagnose) > 0 {
			if d := diagnose[0](ops); d != "" {
				cls = d
			}
		}
		c.Violation(cls, map[string]interface{}{"case": caseN, "history": hs})
	default:
		if ov {
			var parts []interface{}
			sorted := append([]porcupine.Operation{}, ops...)
			sort.Slice(sorted, func(a, b int) bool { return sorted[a].Call < sorted[b].Call })
			for _, o := range sorted {
				parts = append(parts, o.ClientId, o.Return-o.Call, fmt.Sprint(o.Input))
			}
			c.Nontrivial(ev.Hash(parts...))
		}
		if c.WantSample() && ov {
			var hs []string
			for _, o := range ops {
				hs = append(hs, fmt.Sprintf("client %d [%d,%d] %v -> %v", o.ClientId, o.Call, o.Return, o.Input, o.Output))
			}
			c.Sample(map[string]interface{}{"component": name, "history": hs})
		}
	}
}

func c28Lin(c *ev.Ctx) {
	c28BufferDirected(c)
	c.Parallel(c.Pick(40, 600), 4, func(i int) { c28PoolFlushAtomic(c, i) })
	c.Parallel(c.Pick(40, 600), 4, func(i int) { c28PoolDropsDuringFlush(c, i) })
	c.Parallel(c.Pick(20, 300), 4, func(i int) { c28BigBatches(c, i) })
	n := c.Pick(2400, 60000)
	c.Parallel(n, 8, func(i int) {
		r := c.Rand("lin", i)
		switch i % 6 {
		case 0:
			c28LinFlushable(c, r, i, false)
		case 1:
			c28LinFlushable(c, r, i, true)
		case 2:
			c28LinPool(c, r, i)
		case 3:
			c28LinLRU(c, r, i)
		case 4:
			c28LinSem(c, r, i)
		default:
			c28LinBuffer(c, r, i)
		}
	})
}

// ---- flushable: state = "cur|dirty" over keys 0,1
type c28fst struct {
	Cur   [2]int // 0 = absent
	Under [2]int
	Dirty [2]bool
}

func c28LinFlushable(c *ev.Ctx, r *rand.Rand, caseN int, lazy bool) {
	var fl kvdb.FlushableKVStore
	if lazy {
		fl = flushable.NewLazy(func() (kvdb.Store, error) { return memorydb.New(), nil }, func() {})
	} else {
		fl = flushable.Wrap(memorydb.New())
	}
	keys := [][]byte{[]byte("a"), []byte("b")}
	rec := &hist.Recorder{}
	clients := 3 + r.Intn(2)
	seeds := make([]int64, clients)
	for i := range seeds {
		seeds[i] = r.Int63()
	}
	hist.Run(clients, func(cl int) {
		rr := rand.New(rand.NewSource(seeds[cl]))
		for k := 0; k < 5+rr.Intn(5); k++ {
			key := rr.Intn(2)
			op := rr.Intn(10)
			if caseN%4 >= 2 {
				// snapshot mix: tight loops of put / flush / read-through-a-fresh-snapshot
				op = []int{0, 7, 10, 10, 1, 7, 10, 3, 10, 7}[op]
			} else {
				hist.Jitter(rr.Intn(1000))
			}
			switch op {
			case 10:
				rec.Do(cl, c28in{Op: "get", K: key}, func() interface{} {
					sn, err := fl.GetSnapshot()
					if err != nil {
						return -1
					}
					defer sn.Release()
					b, _ := sn.Get(keys[key])
					if b == nil {
						return 0
					}
					var v int
					fmt.Sscan(string(b), &v)
					return v
				})
			case 0, 1, 2:
				v := (cl+1)*1000 + k + 1
				rec.Do(cl, c28in{Op: "put", K: key, V: v}, func() interface{} { _ = fl.Put(keys[key], []byte(fmt.Sprint(v))); return 0 })
			case 3:
				rec.Do(cl, c28in{Op: "delete", K: key}, func() interface{} { _ = fl.Delete(keys[key]); return 0 })
			case 4, 5:
				rec.Do(cl, c28in{Op: "get", K: key}, func() interface{} {
					b, _ := fl.Get(keys[key])
					if b == nil {
						return 0
					}
					var v int
					fmt.Sscan(string(b), &v)
					return v
				})
			case 6:
				rec.Do(cl, c28in{Op: "has", K: key}, func() interface{} {
					ok, _ := fl.Has(keys[key])
					if ok {
						return 1
					}
					return 0
				})
			case 7:
				rec.Do(cl, c28in{Op: "flush"}, func() interface{} { _ = fl.Flush(); return 0 })
			case 8:
				rec.Do(cl, c28in{Op: "drop"}, func() interface{} { fl.DropNotFlushed(); return 0 })
			default:
				rec.Do(cl, c28in{Op: "pairs"}, func() interface{} { return fl.NotFlushedPairs() })
			}
		}
	})
	model := porcupine.Model{
		Init: func() interface{} { return c28fst{} },
		Step: func(st, in, out interface{}) (bool, interface{}) {
			s, i, o := st.(c28fst), in.(c28in), out.(int)
			switch i.Op {
			case "put":
				s.Cur[i.K], s.Dirty[i.K] = i.V, true
			case "delete":
				s.Cur[i.K], s.Dirty[i.K] = 0, true
			case "get":
				return o == s.Cur[i.K], s
			case "has":
				return (o == 1) == (s.Cur[i.K] != 0), s
			case "flush":
				s.Under, s.Dirty = s.Cur, [2]bool{}
			case "drop":
				s.Cur, s.Dirty = s.Under, [2]bool{}
			case "pairs":
				n := 0
				for _, d := range s.Dirty {
					if d {
						n++
					}
				}
				return o == n, s
			}
			return true, s
		},
	}
	name := "flushable"
	if lazy {
		name = "lazy_flushable"
	}
	c28check(c, name, model, rec.Ops(), caseN)
}

// ---- synced pool: partitioned by database
type c28pin struct {
	DB string
	Op string
	V  int
}

func (i c28pin) String() string { return fmt.Sprintf("%s.%s(%d)", i.DB, i.Op, i.V) }

type c28pst struct{ Cur, Under int }

func c28LinPool(c *ev.Ctx, r *rand.Rand, caseN int) {
	pool := flushable.NewSyncedPool(memdisk.New().Producer(), []byte("\x00flushid"))
	names := []string{"A", "B"}
	dbs := map[string]kvdb.Store{}
	for _, n := range names {
		db, err := pool.OpenDB(n)
		if err != nil {
			panic(err)
		}
		dbs[n] = db
	}
	key := []byte("k")
	rec := &hist.Recorder{}
	clients := 3 + r.Intn(2)
	seeds := make([]int64, clients)
	for i := range seeds {
		seeds[i] = r.Int63()
	}
	dec := func(b []byte) int {
		if b == nil {
			return 0
		}
		var v int
		fmt.Sscan(string(b), &v)
		return v
	}
	hist.Run(clients, func(cl int) {
		rr := rand.New(rand.NewSource(seeds[cl]))
		for k := 0; k < 5+rr.Intn(5); k++ {
			n := names[rr.Intn(2)]
			hist.Jitter(rr.Intn(1000))
			switch rr.Intn(9) {
			case 0, 1, 2:
				v := (cl+1)*1000 + k + 1
				rec.Do(cl, c28pin{n, "put", v}, func() interface{} { _ = dbs[n].Put(key, []byte(fmt.Sprint(v))); return 0 })
			case 3:
				rec.Do(cl, c28pin{n, "delete", 0}, func() interface{} { _ = dbs[n].Delete(key); return 0 })
			case 4, 5:
				rec.Do(cl, c28pin{n, "get", 0}, func() interface{} { b, _ := dbs[n].Get(key); return dec(b) })
			case 6:
				rec.Do(cl, c28pin{n, "underlying-get", 0}, func() interface{} {
					u, err := pool.GetUnderlying(n)
					if err != nil {
						return -1
					}
					b, _ := u.Get(key)
					return dec(b)
				})
			default:
				rec.DoMulti(cl, []interface{}{c28pin{"A", "flush", 0}, c28pin{"B", "flush", 0}}, func() []interface{} {
					_ = pool.Flush([]byte{byte(cl), byte(k)})
					return []interface{}{0, 0}
				})
			}
		}
	})
	model := porcupine.Model{
		Partition: func(h []porcupine.Operation) [][]porcupine.Operation {
			m := map[string][]porcupine.Operation{}
			for _, o := range h {
				m[o.Input.(c28pin).DB] = append(m[o.Input.(c28pin).DB], o)
			}
			var out [][]porcupine.Operation
			for _, v := range m {
				out = append(out, v)
			}
			return out
		},
		Init: func() interface{} { return c28pst{} },
		Step: func(st, in, out interface{}) (bool, interface{}) {
			s, i, o := st.(c28pst), in.(c28pin), out.(int)
			switch i.Op {
			case "put":
				s.Cur = i.V
			case "delete":
				s.Cur = 0
			case "get":
				return o == s.Cur, s
			case "underlying-get":
				return o == s.Under, s
			case "flush":
				s.Under = s.Cur
			}
			return true, s
		},
	}
	c28check(c, "synced_pool", model, rec.Ops(), caseN)
}

// ---- wlru: full LRU model, state serialised
type c28lout struct {
	V, N int
	Ok   bool
	Keys string
}

func c28LinLRU(c *ev.Ctx, r *rand.Rand, caseN int) {
	maxW, maxN := uint(3+r.Intn(5)), 2+r.Intn(3)
	cache, _ := wlru.New(maxW, maxN)
	rec := &hist.Recorder{}
	clients := 3
	seeds := []int64{r.Int63(), r.Int63(), r.Int63()}
	hist.Run(clients, func(cl int) {
		rr := rand.New(rand.NewSource(seeds[cl]))
		for k := 0; k < 5+rr.Intn(4); k++ {
			key, w := rr.Intn(3), uint(rr.Intn(4))
			v := (cl+1)*1000 + k
			op := rr.Intn(10)
			if caseN%3 == 0 {
				// contention mix: every client fires check-then-act operations at the same few absent keys
				op = []int{7, 7, 8, 6, 7, 8, 3, 7, 8, 6}[op]
				key = rr.Intn(2)
			} else {
				hist.Jitter(rr.Intn(1000))
			}
			switch op {
			case 0, 1, 2:
				rec.Do(cl, c28in{Op: "add", K: key, V: v, W: w}, func() interface{} { return c28lout{N: cache.Add(key, v, w)} })
			case 3:
				rec.Do(cl, c28in{Op: "get", K: key}, func() interface{} {
					x, ok := cache.Get(key)
					o := c28lout{Ok: ok}
					if ok {
						o.V = x.(int)
					}
					return o
				})
			case 4:
				rec.Do(cl, c28in{Op: "peek", K: key}, func() interface{} {
					x, ok := cache.Peek(key)
					o := c28lout{Ok: ok}
					if ok {
						o.V = x.(int)
					}
					return o
				})
			case 5:
				rec.Do(cl, c28in{Op: "contains", K: key}, func() interface{} { return c28lout{Ok: cache.Contains(key)} })
			case 6:
				rec.Do(cl, c28in{Op: "remove", K: key}, func() interface{} { return c28lout{Ok: cache.Remove(key)} })
			case 7:
				rec.Do(cl, c28in{Op: "containsOrAdd", K: key, V: v, W: w}, func() interface{} {
					ok, n := cache.ContainsOrAdd(key, v, w)
					return c28lout{Ok: ok, N: n}
				})
			case 8:
				rec.Do(cl, c28in{Op: "peekOrAdd", K: key, V: v, W: w}, func() interface{} {
					p, ok, n := cache.PeekOrAdd(key, v, w)
					o := c28lout{Ok: ok, N: n}
					if ok {
						o.V = p.(int)
					}
					return o
				})
			default:
				rec.Do(cl, c28in{Op: "keys+total"}, func() interface{} {
					// two calls are not one atomic operation: use Total only
					w, n := cache.Total()
					return c28lout{N: n, V: int(w)}
				})
			}
		}
	})
	parse := func(s string) []lruEnt {
		var es []lruEnt
		if s == "" {
			return es
		}
		for _, p := range strings.Split(s, ",") {
			var e lruEnt
			fmt.Sscanf(p, "%d:%d:%d", &e.k, &e.v, &e.w)
			es = append(es, e)
		}
		return es
	}
	ser := func(es []lruEnt) string {
		var ps []string
		for _, e := range es {
			ps = append(ps, fmt.Sprintf("%d:%d:%d", e.k, e.v, e.w))
		}
		return strings.Join(ps, ",")
	}
	model := porcupine.Model{
		Init: func() interface{} { return "" },
		Step: func(st, in, out interface{}) (bool, interface{}) {
			m := &lruModel{ents: parse(st.(string)), maxW: maxW, maxN: maxN}
			i, o := in.(c28in), out.(c28lout)
			ok := true
			j := m.find(i.K)
			switch i.Op {
			case "add":
				ok = m.add(i.K, i.V, i.W) == o.N
			case "get":
				ok = o.Ok == (j >= 0) && (j < 0 || m.ents[j].v == o.V)
				if j >= 0 {
					e := m.ents[j]
					m.ents = append(append(m.ents[:j:j], m.ents[j+1:]...), e)
				}
			case "peek":
				ok = o.Ok == (j >= 0) && (j < 0 || m.ents[j].v == o.V)
			case "contains":
				ok = o.Ok == (j >= 0)
			case "remove":
				ok = o.Ok == (j >= 0)
				if j >= 0 {
					m.ents = append(m.ents[:j:j], m.ents[j+1:]...)
				}
			case "containsOrAdd":
				if j >= 0 {
					ok = o.Ok && o.N == 0
				} else {
					ok = !o.Ok && m.add(i.K, i.V, i.W) == o.N
				}
			case "peekOrAdd":
				if j >= 0 {
					ok = o.Ok && o.N == 0 && o.V == m.ents[j].v
				} else {
					ok = !o.Ok && m.add(i.K, i.V, i.W) == o.N
				}
			default:
				ok = o.N == len(m.ents) && uint(o.V) == m.weight()
			}
			return ok, ser(m.ents)
		},
	}
	c28check(c, "wlru", model, rec.Ops(), caseN)
}

// ---- semaphore
type c28sst struct{ N, S int }

func c28LinSem(c *ev.Ctx, r *rand.Rand, caseN int) {
	capN, capS := 3+r.Intn(3), 20+r.Intn(30)
	clients := 3 + r.Intn(2)
	// every second history: the semaphore reports over-releases through its warning callback. What it reports as held
	// is part of the release's observable outcome; the callback yields, so other clients get a chance to run "inside" it.
	// Each client releases sizes of its own residue class, which tells whose release a report belongs to.
	withWarning := caseN/6%2 == 1 // (caseN%6 is fixed for this structure)
	reported := make([]*c28sst, clients)
	var warn func(received dag.Metric, processing dag.Metric, releasing dag.Metric)
	if withWarning {
		warn = func(_ dag.Metric, processing dag.Metric, releasing dag.Metric) {
			cl := int(releasing.Size) % clients
			reported[cl] = &c28sst{int(processing.Num), int(processing.Size)}
			runtime.Gosched()
			if caseN/6%4 == 3 {
				time.Sleep(200 * time.Microsecond) // long enough for the other clients to get several operations in
			}
		}
	}
	sem := datasemaphore.New(dag.Metric{Num: idx.Event(capN), Size: uint64(capS)}, warn)
	rec := &hist.Recorder{}
	seeds := make([]int64, clients)
	for i := range seeds {
		seeds[i] = r.Int63()
	}
	hist.Run(clients, func(cl int) {
		rr := rand.New(rand.NewSource(seeds[cl]))
		for k := 0; k < 5+rr.Intn(5); k++ {
			n, s := rr.Intn(3), rr.Intn(20)
			if withWarning {
				s = s/clients*clients + cl // this client's residue class
			}
			m := dag.Metric{Num: idx.Event(n), Size: uint64(s)}
			hist.Jitter(rr.Intn(1000))
			switch rr.Intn(7) {
			case 0, 1, 2:
				rec.Do(cl, c28in{Op: "try", K: n, V: s}, func() interface{} {
					if sem.TryAcquire(m) {
						return c28sst{1, 0}
					}
					return c28sst{0, 0}
				})
			case 3, 4:
				rec.Do(cl, c28in{Op: "release", K: n, V: s}, func() interface{} {
					reported[cl] = nil
					sem.Release(m)
					if rp := reported[cl]; rp != nil {
						return c28sst{rp.N + 1000, rp.S} // an over-release was reported, with this held amount
					}
					return c28sst{}
				})
			case 5:
				rec.Do(cl, c28in{Op: "processing"}, func() interface{} {
					p := sem.Processing()
					return c28sst{int(p.Num), int(p.Size)}
				})
			default:
				rec.Do(cl, c28in{Op: "available"}, func() interface{} {
					p := sem.Available()
					return c28sst{int(p.Num), int(p.Size)}
				})
			}
		}
	})
	model := porcupine.Model{
		Init: func() interface{} { return c28sst{} },
		Step: func(st, in, out interface{}) (bool, interface{}) {
			s, i, o := st.(c28sst), in.(c28in), out.(c28sst)
			switch i.Op {
			case "try":
				fits := s.N+i.K <= capN && s.S+i.V <= capS
				if fits {
					return o.N == 1, c28sst{s.N + i.K, s.S + i.V}
				}
				return o.N == 0, s
			case "release":
				if s.N < i.K || s.S < i.V {
					if withWarning && (o.N != s.N+1000 || o.S != s.S) {
						return false, s // the report must show what was held at the moment of the reset
					}
					return true, c28sst{}
				}
				if withWarning && o.N >= 1000 {
					return false, s // reported an over-release that was none
				}
				return true, c28sst{s.N - i.K, s.S - i.V}
			case "processing":
				return o == s, s
			default:
				return o.N == capN-s.N && o.S == capS-s.S, s
			}
		},
	}
	if withWarning {
		c.Count("semaphore_histories_with_warning_callback", 1)
	}
	c28check(c, "semaphore", model, rec.Ops(), caseN)
}

// ---- ordering buffer over the DAG a, b(a), c(a,b), d(c)
type c28bst struct{ Conn, Buf uint8 }

func c28LinBuffer(c *ev.Ctx, r *rand.Rand, caseN int) {
	parents := [][]int{nil, {0}, {0, 1}, {2}}
	evs := c14events(parents, uint64(caseN)*10)
	var cmu sync.Mutex
	connected := map[hash.Event]dag.Event{}
	slowProcess := caseN/6%3 == 1
	buf := dagordering.New(dag.Metric{Num: 100, Size: 1 << 20}, dagordering.Callback{
		Process: func(e dag.Event) error {
			if slowProcess {
				time.Sleep(60 * time.Microsecond) // the push that connects an event stays inside the buffer for a while
			}
			cmu.Lock()
			connected[e.ID()] = e
			cmu.Unlock()
			return nil
		},
		Get: func(id hash.Event) dag.Event {
			cmu.Lock()
			defer cmu.Unlock()
			if e, ok := connected[id]; ok {
				return e
			}
			return nil
		},
		Exists: func(id hash.Event) bool { cmu.Lock(); defer cmu.Unlock(); return connected[id] != nil },
	})
	if slowProcess {
		c.Count("ordering_buffer_histories_with_a_slow_process_callback", 1)
	}
	rec := &hist.Recorder{}
	clients := 3 + r.Intn(2)
	seeds := make([]int64, clients)
	for i := range seeds {
		seeds[i] = r.Int63()
	}
	hist.Run(clients, func(cl int) {
		rr := rand.New(rand.NewSource(seeds[cl]))
		for k := 0; k < 4+rr.Intn(5); k++ {
			e := rr.Intn(4)
			hist.Jitter(rr.Intn(1000))
			switch rr.Intn(8) {
			case 0, 1, 2, 3:
				rec.Do(cl, c28in{Op: "push", K: e}, func() interface{} {
					cp := &cons.Ev{}
					*cp = *evs[e]
					if buf.PushEvent(cp, "p") {
						return 1
					}
					return 0
				})
			case 4, 5:
				rec.Do(cl, c28in{Op: "isBuffered", K: e}, func() interface{} {
					if buf.IsBuffered(evs[e].ID()) {
						return 1
					}
					return 0
				})
			case 6:
				rec.Do(cl, c28in{Op: "total"}, func() interface{} {
					t := buf.Total()
					if !c28validTotal(evs, t) {
						c.Violation("ordering-buffer-total-is-a-pair-the-buffer-never-held", map[string]interface{}{"case": caseN, "total": t.String(), "event_sizes": []int{evs[0].Size(), evs[1].Size(), evs[2].Size(), evs[3].Size()}})
					}
					return int(t.Num)
				})
			default:
				rec.Do(cl, c28in{Op: "clear"}, func() interface{} { buf.Clear(); return 0 })
			}
		}
	})
	model := c28bufModel()
	c28check(c, "ordering_buffer", model, rec.Ops(), caseN, c28bufDiagnose(model))
}

func c28bufDiagnose(model porcupine.Model) func(ops []porcupine.Operation) string {
	return func(ops []porcupine.Operation) string {
		// which operations carry the anomaly? without the two accessors that bypass the buffer's mutex
		// (Total, IsBuffered) the history must be linearizable
		var reduced []porcupine.Operation
		for _, o := range ops {
			if k := o.Input.(c28in).Op; k != "total" && k != "isBuffered" {
				reduced = append(reduced, o)
			}
		}
		if porcupine.CheckOperationsTimeout(model, reduced, 30*time.Second) == porcupine.Ok {
			return "ordering-buffer-total-or-isbuffered-observes-a-half-done-push-or-clear"
		}
		return ""
	}
}

func c28bufModel() porcupine.Model {
	pmask := []uint8{0, 1, 3, 4}
	return porcupine.Model{
		Init: func() interface{} { return c28bst{} },
		Step: func(st, in, out interface{}) (bool, interface{}) {
			s, i, o := st.(c28bst), in.(c28in), out.(int)
			bit := uint8(1) << uint(i.K)
			switch i.Op {
			case "push":
				if s.Buf&bit != 0 || s.Conn&bit != 0 {
					return o == 0, s
				}
				if s.Conn&pmask[i.K] == pmask[i.K] {
					s.Conn |= bit
					for changed := true; changed; {
						changed = false
						for x := 0; x < 4; x++ {
							xb := uint8(1) << uint(x)
							if s.Buf&xb != 0 && s.Conn&pmask[x] == pmask[x] {
								s.Buf &^= xb
								s.Conn |= xb
								changed = true
							}
						}
					}
					return o == 1, s
				}
				s.Buf |= bit
				return o == 0, s
			case "isBuffered":
				return (o == 1) == (s.Buf&bit != 0), s
			case "total":
				n := 0
				for x := 0; x < 4; x++ {
					if s.Buf&(1<<uint(x)) != 0 {
						n++
					}
				}
				return o == n, s
			default:
				s.Buf = 0
				return true, s
			}
		},
	}
}

// c28BufferDirected produces, deterministically, the one interleaving behind the recorded finding: while
// Clear() drops three buffered events one by one (the Released callback of the first one parks the clearing
// goroutine), another goroutine calls Total(). On a buffer whose accessors take part in the mutual exclusion
// the call would only return after Clear() (the callback gives up waiting after 2 s).
func c28BufferDirected(c *ev.Ctx) {
	parents := [][]int{nil, {0}, {0, 1}, {2}}
	evs := c14events(parents, 424242)
	rec := &hist.Recorder{}
	var buf *dagordering.EventsBuffer
	inClear := false
	released := 0
	buf = dagordering.New(dag.Metric{Num: 100, Size: 1 << 20}, dagordering.Callback{
		Process: func(e dag.Event) error { return nil },
		Released: func(e dag.Event, peer string, err error) {
			released++
			if !inClear || released != 1 {
				return
			}
			done := make(chan struct{})
			go func() {
				rec.Do(1, c28in{Op: "total"}, func() interface{} { return int(buf.Total().Num) })
				close(done)
			}()
			select {
			case <-done:
			case <-time.After(2 * time.Second):
			}
		},
		Get:    func(id hash.Event) dag.Event { return nil },
		Exists: func(id hash.Event) bool { return false },
	})
	for _, k := range []int{1, 2, 3} {
		k := k
		rec.Do(0, c28in{Op: "push", K: k}, func() interface{} {
			if buf.PushEvent(evs[k], "p") {
				return 1
			}
			return 0
		})
	}
	rec.Do(0, c28in{Op: "total"}, func() interface{} { return int(buf.Total().Num) })
	inClear, released = true, 0
	rec.Do(0, c28in{Op: "clear"}, func() interface{} { buf.Clear(); return 0 })
	time.Sleep(10 * time.Millisecond)
	pmask := []uint8{0, 1, 3, 4}
	_ = pmask
	model := c28bufModel()
	c.Count("directed_buffer_histories", 1)
	c28check(c, "ordering_buffer", model, rec.Ops(), -1, c28bufDiagnose(model))
}

// c28validTotal: (Num, Size) must be the count and byte size of SOME subset of the four events.
func c28validTotal(evs []*cons.Ev, t dag.Metric) bool {
	for mask := 0; mask < 16; mask++ {
		n, sz := 0, 0
		for k := 0; k < 4; k++ {
			if mask&(1<<uint(k)) != 0 {
				n++
				sz += evs[k].Size()
			}
		}
		if uint64(sz) == t.Size && idx.Event(n) == t.Num {
			return true
		}
	}
	return false
}
