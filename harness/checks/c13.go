package checks

import (
	"fmt"
	"math/rand"

	"github.com/Fantom-foundation/lachesis-base/eventcheck"
	"github.com/Fantom-foundation/lachesis-base/eventcheck/basiccheck"
	"github.com/Fantom-foundation/lachesis-base/eventcheck/epochcheck"
	"github.com/Fantom-foundation/lachesis-base/eventcheck/parentscheck"
	"github.com/Fantom-foundation/lachesis-base/hash"
	"github.com/Fantom-foundation/lachesis-base/inter/dag"
	"github.com/Fantom-foundation/lachesis-base/inter/idx"
	"github.com/Fantom-foundation/lachesis-base/inter/pos"

	"verif/cons"
	"verif/ev"
)

// C13 Event checkers accept exactly well-formed events.
func init() { register("C13", "exploration", runC13) }

type c13rdr struct {
	v *pos.Validators
	e idx.Epoch
}

func (r c13rdr) GetEpochValidators() (*pos.Validators, idx.Epoch) { return r.v, r.e }

type c13parent struct {
	Creator idx.ValidatorID
	Seq     uint32
	Lam     uint32
	ID      byte
}

type c13case struct {
	Seq, Epoch, Frame, Lam uint32
	Creator                idx.ValidatorID
	Parents                []c13parent
	StalePrefix            bool // the parents' IDs were assigned while their Lamport field held another value (IDs are opaque to the checkers)
}

const c13lim = uint64(1<<31 - 2)
const c13epoch = 5

// c13oracle: the predicate of the statement, written independently of the checkers. Returns the list of
// violated clauses (empty = well-formed).
func c13oracle(k *c13case, vals *pos.Validators) (bad []string) {
	for name, v := range map[string]uint32{"seq": k.Seq, "epoch": k.Epoch, "frame": k.Frame, "lamport": k.Lam} {
		if v == 0 {
			bad = append(bad, name+"=0")
		} else if uint64(v) >= c13lim {
			bad = append(bad, name+" too big")
		}
	}
	// an event ID is (epoch, Lamport, 24 id bytes): two parent entries are the same event iff both agree
	seen := map[[2]uint32]bool{}
	dup := false
	for _, p := range k.Parents {
		key := [2]uint32{uint32(p.ID), p.Lam}
		if seen[key] {
			dup = true
		}
		seen[key] = true
	}
	if dup {
		bad = append(bad, "duplicate parents")
	}
	if k.Seq > 1 && len(k.Parents) == 0 {
		bad = append(bad, "no parents")
	}
	if k.Epoch != c13epoch {
		bad = append(bad, "epoch")
	}
	if !vals.Exists(k.Creator) {
		bad = append(bad, "creator")
	}
	var maxLam uint64
	for _, p := range k.Parents {
		if uint64(p.Lam) > maxLam {
			maxLam = uint64(p.Lam)
		}
	}
	if uint64(k.Lam) != maxLam+1 {
		bad = append(bad, "lamport != max+1")
	}
	for i, p := range k.Parents {
		if p.Creator == k.Creator && (i != 0 || k.Seq <= 1) {
			bad = append(bad, "own-creator parent not the self-parent")
			break
		}
	}
	if k.Seq > 1 && len(k.Parents) > 0 {
		if k.Parents[0].Creator != k.Creator {
			bad = append(bad, "self-parent missing")
		} else if uint64(k.Parents[0].Seq)+1 != uint64(k.Seq) {
			bad = append(bad, "self-parent seq")
		}
	}
	return bad
}

func c13build(k *c13case) (dag.Event, dag.Events) {
	e := &cons.Ev{}
	e.SetSeq(idx.Event(k.Seq))
	e.SetEpoch(idx.Epoch(k.Epoch))
	e.SetFrame(idx.Frame(k.Frame))
	e.SetLamport(idx.Lamport(k.Lam))
	e.SetCreator(k.Creator)
	var parents dag.Events
	var pids hash.Events
	for _, ps := range k.Parents {
		p := &cons.Ev{}
		p.SetSeq(idx.Event(ps.Seq))
		p.SetCreator(ps.Creator)
		p.SetLamport(idx.Lamport(ps.Lam))
		p.SetEpoch(c13epoch)
		p.SetFrame(1)
		if k.StalePrefix {
			p.SetLamport(idx.Lamport(ps.Lam + 7)) // bijective in Lam, so "same ID" still means "same (ID byte, Lamport)"
		}
		p.SetID([24]byte{ps.ID}) // identity is the ID byte: same byte = same event
		p.SetLamport(idx.Lamport(ps.Lam))
		// parents with one ID must be one event: normalise lamport into the id prefix consistently
		parents = append(parents, p)
		pids = append(pids, p.ID())
	}
	e.SetParents(pids)
	e.SetID([24]byte{0xee})
	return e, parents
}

func runC13(c *ev.Ctx) {
	c.Rule = "three generators: (0) one long-lived set of checkers validates 60 simple events while the node behind the reader changes epoch and validator set in between (accept iff epoch and creator match the node state at that moment); (1) the cross product of boundary values {0,1,2,3,2^31-3,2^31-2,2^31-1,2^32-1} for seq and Lamport, epochs {0,cur-1,cur,cur+1,2^31-2}, frames {0,1,2^31-3,2^31-2}, creators {validator, validator, stranger} and parent lists of length 0-3 drawn from 8 parent shapes (one with Lamport 2^32-1, so that max+1 wraps to 0) (fully in thorough, a seeded 1/5 in quick); " +
		"(2) valid events (random creator, seq, 0-3 other parents, consistent Lamport) with 0-2 single-field faults injected (boundary value in a field, duplicated parent adjacent or not, own-creator parent at index>0, seq=1 with an own-creator parent, missing self-parent, self-parent seq off by one, Lamport +-1, epoch +-1, stranger creator, parents reordered). A third of the cases with parents is repeated with parent events whose IDs were assigned while their Lamport field held another value (the parents' Lamport is what the parent events say, not what their IDs embed). Only accept/reject is compared with the predicate written from the statement. " +
		"non-trivial = distinct inputs that are rejected for exactly one reason, or accepted"
	c.Assumptions = []string{"the parents handed to the parents check are the events named by the event's parent IDs (caller contract of Checkers.Validate)", "parents with equal IDs are the same event"}
	vals := pos.EqualWeightValidators([]idx.ValidatorID{1, 2, 3}, 1)
	ch := eventcheck.Checkers{Basiccheck: basiccheck.New(), Epochcheck: epochcheck.New(c13rdr{vals, c13epoch}), Parentscheck: parentscheck.New()}
	var run1 func(k *c13case, src string)
	run := func(k *c13case, src string) {
		run1(k, src)
		if len(k.Parents) > 0 && (k.Seq+k.Lam+uint32(len(k.Parents)))%3 == 0 {
			k2 := *k
			k2.StalePrefix = true
			run1(&k2, src+", parent IDs assigned under another Lamport value")
			c.Count("cases_with_parent_ids_not_carrying_their_lamport", 1)
		}
	}
	run1 = func(k *c13case, src string) {
		bad := c13oracle(k, vals)
		e, parents := c13build(k)
		var err error
		if p, _ := ev.Try(func() { err = ch.Validate(e, parents) }); p != nil {
			c.Violation("checker-panics", map[string]interface{}{"input": fmt.Sprintf("%+v", *k), "panic": fmt.Sprint(p)})
			return
		}
		c.Eval(1)
		if (err == nil) != (len(bad) == 0) {
			cls := "ill-formed-event-accepted"
			if err != nil {
				cls = "well-formed-event-rejected"
			}
			c.Violation(cls, map[string]interface{}{"generator": src, "input": fmt.Sprintf("%+v", *k), "checker_error": fmt.Sprint(err), "violated_clauses": bad})
			return
		}
		if len(bad) == 0 {
			c.Count("accepted", 1)
			c.Nontrivial(ev.Hash(fmt.Sprintf("%+v", *k)))
		} else if len(bad) == 1 {
			c.Count("rejected_for_single_reason:"+bad[0], 1)
			c.Nontrivial(ev.Hash(fmt.Sprintf("%+v", *k)))
		}
		if len(bad) <= 1 && c.WantSample() {
			c.Sample(map[string]interface{}{"input": fmt.Sprintf("%+v", *k), "violated_clauses": bad, "checker_error": fmt.Sprint(err)})
		}
	}
	// ---- (0) one long-lived checker while the node's epoch and validator set change
	c.Parallel(c.Pick(2000, 50000), 0, func(i int) { c13Stateful(c, i) })
	// ---- (1) cross product
	bvals := []uint32{0, 1, 2, 3, 1<<31 - 3, 1<<31 - 2, 1<<31 - 1, 1<<32 - 1}
	lams := []uint32{0, 1, 2, 3, 4, 1<<31 - 3, 1<<31 - 2, 1<<32 - 1}
	pch := []c13parent{{1, 1, 1, 1}, {1, 2, 2, 2}, {2, 1, 1, 3}, {2, 2, 3, 4}, {3, 1<<31 - 4, 1<<31 - 4, 5}, {1, 1, 2, 6}, {9, 1, 1, 7}, {3, 7, 1<<32 - 1, 8}}
	var plists [][]int
	plists = append(plists, nil)
	for a := range pch {
		plists = append(plists, []int{a})
		for b := range pch {
			plists = append(plists, []int{a, b})
			if a < 3 && b < 4 {
				for cc := range pch {
					plists = append(plists, []int{a, b, cc})
				}
			}
		}
	}
	type combo struct{ seq, epoch, frame uint32 }
	var combos []combo
	for _, s := range bvals {
		for _, e := range []uint32{0, 4, 5, 6, 1<<31 - 2} {
			for _, f := range []uint32{0, 1, 1<<31 - 3, 1<<31 - 2} {
				combos = append(combos, combo{s, e, f})
			}
		}
	}
	full := !c.Quick()
	c.Parallel(len(combos), 0, func(ci int) {
		cb := combos[ci]
		r := c.Rand("cross", ci)
		for _, lam := range lams {
			for _, creator := range []idx.ValidatorID{1, 2, 9} {
				for _, pl := range plists {
					if !full && r.Intn(5) != 0 {
						continue
					}
					k := &c13case{Seq: cb.seq, Epoch: cb.epoch, Frame: cb.frame, Lam: lam, Creator: creator}
					for _, pi := range pl {
						k.Parents = append(k.Parents, pch[pi])
					}
					run(k, "cross-product")
				}
			}
		}
	})
	// ---- (2) faults injected into valid events
	n := c.Pick(200000, 5000000)
	c.Parallel(64, 0, func(w int) {
		r := c.Rand("mut", w)
		for i := 0; i < n/64; i++ {
			run(c13mutated(r), "fault-injection")
		}
	})
}

func c13mutated(r *rand.Rand) *c13case {
	k := &c13case{Epoch: c13epoch, Frame: 1 + uint32(r.Intn(5)), Creator: idx.ValidatorID(1 + r.Intn(3))}
	k.Seq = 1 + uint32(r.Intn(4))
	if r.Intn(10) == 0 {
		k.Seq = 1<<31 - 3
	}
	id := byte(1)
	var maxLam uint32
	if k.Seq > 1 {
		l := 1 + uint32(r.Intn(5))
		k.Parents = append(k.Parents, c13parent{k.Creator, k.Seq - 1, l, id})
		id++
		maxLam = l
	}
	others := r.Intn(4)
	for j := 0; j < others; j++ {
		cr := idx.ValidatorID(1 + r.Intn(4)) // 4 = stranger creator of a parent is fine
		if cr == k.Creator {
			cr = 9
		}
		l := 1 + uint32(r.Intn(6))
		k.Parents = append(k.Parents, c13parent{cr, 1 + uint32(r.Intn(3)), l, id})
		id++
		if l > maxLam {
			maxLam = l
		}
	}
	k.Lam = maxLam + 1
	for f := r.Intn(3); f > 0; f-- {
		b := []uint32{0, 1, 1<<31 - 3, 1<<31 - 2, 1<<31 - 1, 1<<32 - 1}[r.Intn(6)]
		switch r.Intn(14) {
		case 0:
			k.Seq = b
		case 1:
			k.Epoch = b
		case 2:
			k.Frame = b
		case 3:
			k.Lam = b
		case 4: // duplicate parent, adjacent or not
			if len(k.Parents) > 0 {
				p := k.Parents[r.Intn(len(k.Parents))]
				at := r.Intn(len(k.Parents) + 1)
				k.Parents = append(k.Parents[:at:at], append([]c13parent{p}, k.Parents[at:]...)...)
			}
		case 5: // own-creator parent at a later index
			k.Parents = append(k.Parents, c13parent{k.Creator, 1 + uint32(r.Intn(3)), 1, id})
			id++
		case 6: // drop the first parent
			if len(k.Parents) > 0 {
				k.Parents = k.Parents[1:]
			}
		case 7:
			if len(k.Parents) > 0 {
				k.Parents[0].Seq += uint32(r.Intn(3)) - 1
			}
		case 8:
			k.Lam += uint32(r.Intn(3)) - 1
		case 9:
			k.Epoch += uint32(r.Intn(3)) - 1
		case 10:
			k.Creator = 9
		case 11: // reorder
			if len(k.Parents) > 1 {
				a, b := r.Intn(len(k.Parents)), r.Intn(len(k.Parents))
				k.Parents[a], k.Parents[b] = k.Parents[b], k.Parents[a]
			}
		case 12: // seq 1 but keep parents
			k.Seq = 1
		case 13: // raise a parent's Lamport without touching the event's
			if len(k.Parents) > 0 {
				k.Parents[r.Intn(len(k.Parents))].Lam += 1 + uint32(r.Intn(3))
			}
		}
	}
	return k
}
