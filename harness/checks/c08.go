package checks

import (
	"fmt"
	"github.com/Fantom-foundation/lachesis-base/abft"
	"sort"

	"github.com/Fantom-foundation/lachesis-base/inter/idx"

	"verif/cons"
	"verif/ev"
)

// C08 Restart at any event boundary is invisible (fault enumeration over event boundaries).
func init() { register("C08", "fault_enumeration", runC08) }

// obs is everything the property lets an outside observer see after one Process call.
type c08obs struct {
	Err     bool
	Blocks  string
	Epoch   idx.Epoch
	Vals    string
	Decided idx.Frame
	Roots   string
}

func c08observe(in *cons.Inst, err error, newBlocks []*cons.Block, probeRoots bool) c08obs {
	o := c08obs{Err: err != nil, Epoch: in.Epoch(), Vals: in.Store.GetValidators().String(), Decided: in.Store.GetLastDecidedFrame()}
	for _, b := range newBlocks {
		o.Blocks += fmt.Sprintf("[ep%d f%d %s %v n=%d sealed=%v boot=%v]", b.Epoch, b.Frame, b.Atropos.String(), b.Cheaters, len(b.Events), b.Sealed, b.InBoot)
	}
	for f := o.Decided; probeRoots && f <= o.Decided+3; f++ {
		if f == 0 {
			continue
		}
		var rs []string
		for _, r := range in.Store.GetFrameRoots(f) {
			rs = append(rs, fmt.Sprintf("%d:%s", r.Slot.Validator, r.ID.String()))
		}
		sort.Strings(rs)
		o.Roots += fmt.Sprintf("f%d%v", f, rs)
	}
	return o
}

func runC08(c *ev.Ctx) {
	c.Rule = "multi-epoch runs (2..8 validators, forks <1/3 with every third run in a fork-root regime of frequent forks whose twins are mostly never built on, lag, sleeper regime, 1-3 epochs with validator-set changes, ~5% of the stream are invalid events with a wrong claimed frame so that reject decisions are compared too). " +
		"Every fourth run uses a roots cache of 1-4 entries. Baseline A never restarts. (a) chain: instance B is torn down and rebuilt after EVERY event (main DB and current epoch DB copied into fresh stores, new abft.Store, fresh vecfc.Index, Bootstrap); (b) fork-off: at EVERY boundary i (runs <= limit events; otherwise every boundary within +-2 of a decision/seal plus a seeded sample) a clone restarted from A's state at i continues to the end. " +
		"Oracle per event: Process error/nil, newly emitted blocks (epoch, frame, Atropos, cheaters, delivered count, sealed), epoch, validators, last decided frame and the root sets of frames decided..decided+3 are identical to A's; no block is emitted while Bootstrap runs. " +
		"non-trivial = distinct (run, boundary) pairs where the boundary directly follows a decision or an epoch seal"
	c.Assumptions = []string{"the application's event storage (EventSource) survives the restart; main DB and the current epoch DB are what abft persists", "cheaters < 1/3"}
	nRuns := c.Pick(480, 3600)
	allLimit := c.Pick(110, 260)
	c.Parallel(nRuns, 0, func(i int) {
		r := c.Rand("run", i)
		o := &campOpts{maxN: 8, minEvents: 30, maxEvents: c.Pick(70, 200), maxEpochs: 3, cheat: cons.CheatBelowThird}
		cfg := genCfgFor(r, i, o)
		if cfg.EventsPer > o.maxEvents {
			cfg.EventsPer = o.maxEvents
		}
		if i%3 == 0 {
			// fork-root regime: cheaters fork often and most twins are strays nobody builds on, so that several
			// fork roots of one validator sit in one undecided frame and only some of them are observed later
			cfg.ForkProb, cfg.StrayProb = 0.35+r.Float64()*0.3, 0.6
			c.Count("fork_root_regime_runs", 1)
		}
		for _, p := range cfg.Plans {
			if p.SealAt > 4 {
				p.SealAt = idx.Frame(1 + r.Intn(4))
			}
		}
		d, _, err := cons.Generate(r, cfg)
		if err != nil {
			c.Count("other_property_discrepancy_built-event-rejected", 1)
			if d == nil || d.Rejected == nil || len(d.Epochs) == 0 {
				return
			}
			// keep going with what was generated plus the event the long-running generator refused: if a
			// restarted instance treats it differently, that is a restart-visible difference
			last := d.Epochs[len(d.Epochs)-1]
			last.Events = append(last.Events, d.Rejected)
		}
		// the stream: per epoch a parents-first order, sprinkled with invalid clones (wrong frame, fresh id)
		type item struct {
			e     *cons.Ev
			epoch idx.Epoch
			bad   bool
		}
		var stream []item
		for ei, ed := range d.Epochs {
			for k, e := range cons.Order(r, ed.Events, cons.OrderKind([]cons.OrderKind{cons.OrdGen, cons.OrdRandom, cons.OrdRootsLast}[(i+ei)%3])) {
				if r.Intn(20) == 0 {
					b := e.Clone()
					b.SetFrame([]idx.Frame{e.Frame() + 1, e.Frame() + 2, e.Frame() + 100, 0}[r.Intn(4)])
					b.SetHashID(uint64(k) + 7777)
					b.Name = e.Name + "~badframe"
					stream = append(stream, item{b, ed.Plan.Epoch, true})
				}
				stream = append(stream, item{e, ed.Plan.Epoch, false})
			}
		}
		policy := cfg.Policy()
		icfg := cons.InstCfg{Index: cons.IndexCfg(i % 3), ReuseVals: i%2 == 0}
		if i%4 == 3 {
			// a roots cache smaller than the roots of one frame (and of few frames): the never-restarted instance lives on
			// its cache, the restarted ones on the database
			icfg.StoreCfg = &abft.StoreConfig{Cache: abft.StoreCacheConfig{RootsNum: uint(1 + r.Intn(4)), RootsFrames: []int{1, 3, 100}[r.Intn(3)]}}
			c.Count("runs_with_a_tiny_roots_cache", 1)
		}
		A := cons.NewInst(cfg.Plans[0].Epoch, cfg.Plans[0].Validators(), policy, icfg)
		B := cons.NewInst(cfg.Plans[0].Epoch, cfg.Plans[0].Validators(), policy, icfg)
		desc := func() map[string]interface{} {
			return map[string]interface{}{"case": i, "dag": describeDAG(d), "stream_len": len(stream)}
		}
		step := func(in *cons.Inst, it item) (c08obs, bool) {
			if in.Epoch() != it.epoch {
				return c08obs{}, false // left-over event of a sealed epoch: dropped by the driver
			}
			nb := len(in.Blocks)
			err := in.Process(it.e)
			if err != nil && in.Crit != nil {
				return c08obs{Err: true, Blocks: "CRIT " + err.Error()}, true
			}
			// probing the root registry touches its cache (entries are then rebuilt from the database order), which
			// could hide order-dependent behaviour of the long-running instance: only every second run probes it
			return c08observe(in, err, in.Blocks[nb:], i%2 == 0), true
		}
		type clone struct {
			in   *cons.Inst
			from int
		}
		var clones []clone
		forkAll := len(stream) <= allLimit
		var baseline []c08obs
		var fed []bool
		interesting := map[int]bool{} // boundaries right after a decision / seal
		sample := map[int]bool{}
		if !forkAll {
			for k := 0; k < 30; k++ {
				sample[r.Intn(len(stream))] = true
			}
		}
		restarts, afterDecision := 0, 0
		for k, it := range stream {
			oa, okA := step(A, it)
			baseline = append(baseline, oa)
			fed = append(fed, okA)
			if okA && it.bad != oa.Err {
				// (C04/C07 territory, but a baseline that accepts a wrong frame makes the comparison meaningless)
				c.Count("other_property_discrepancy_bad-frame-accepted-or-valid-rejected", 1)
			}
			// chain instance
			ob, okB := step(B, it)
			if okA != okB || oa != ob {
				m := desc()
				m["boundary"], m["event"], m["kept_running"], m["restarted_every_event"] = k, it.e.Name, oa, ob
				c.Violation("restart-chain-diverges", m)
				return
			}
			// live clones
			for _, cl := range clones {
				oc, okC := step(cl.in, it)
				if okC != okA || oc != oa {
					m := desc()
					m["restart_after_event_index"], m["diverged_at_event_index"], m["event"], m["kept_running"], m["restarted"] = cl.from, k, it.e.Name, oa, oc
					c.Violation("restart-fork-off-diverges", m)
					return
				}
			}
			if !okA {
				continue
			}
			if A.Crit != nil {
				break // both instances hit the same fatal condition; nothing further to compare
			}
			decidedNow := oa.Blocks != ""
			if decidedNow {
				interesting[k] = true
			}
			// restart B (every boundary)
			nbB := len(B.Blocks)
			B = B.Restart()
			restarts++
			if len(B.Blocks) != nbB {
				m := desc()
				m["boundary"], m["blocks_during_bootstrap"] = k, len(B.Blocks)-nbB
				c.Violation("block-emitted-during-bootstrap", m)
				return
			}
			if B.Epoch() != A.Epoch() || B.Store.GetLastDecidedFrame() != A.Store.GetLastDecidedFrame() || B.Store.GetValidators().String() != A.Store.GetValidators().String() {
				m := desc()
				m["boundary"] = k
				c.Violation("state-after-restart-differs", m)
				return
			}
			// fork-off clone from A's state at this boundary
			near := false
			for dlt := -2; dlt <= 2; dlt++ {
				if interesting[k+dlt] {
					near = true
				}
			}
			if forkAll || near || sample[k] {
				nbA := len(A.Blocks)
				cl := A.Restart()
				if len(cl.Blocks) != nbA {
					m := desc()
					m["boundary"], m["blocks_during_bootstrap"] = k, len(cl.Blocks)-nbA
					c.Violation("block-emitted-during-bootstrap", m)
					return
				}
				clones = append(clones, clone{cl, k})
				restarts++
				if decidedNow {
					afterDecision++
					c.Nontrivial(ev.Hash(d.FP, k))
				}
			}
		}
		c.Eval(int64(restarts))
		c.Count("restarts_total", int64(restarts))
		c.Count("restarts_right_after_decision_or_seal", int64(afterDecision))
		c.Count("events_in_streams", int64(len(stream)))
		c.Count("blocks_in_baselines", int64(len(A.Blocks)))
		c.Count("epochs_sealed", int64(len(d.Epochs)-1))
		if forkAll {
			c.Count("runs_with_every_boundary_forked", 1)
		} else {
			c.Count("runs_with_windowed_fork_off", 1)
		}
		if c.WantSample() {
			s := describeDAG(d)
			s["case"], s["stream_len"], s["restarts"], s["clones"] = i, len(stream), restarts, len(clones)
			c.Sample(s)
		}
	})
}
