package checks

import (
	"fmt"
	"sort"

	"verif/cons"
	"verif/ev"
)

// c02ResetReplay: an instance that delivered an epoch's blocks is Reset to the SAME epoch number and validator set and
// receives the same events again (another order): every block must hand over the same events as the first time - marks
// of what was "already delivered" belong to the epoch instance that was reset away.
func c02ResetReplay(c *ev.Ctx, i int) {
	r := c.Rand("reset-replay", i)
	n := 3 + r.Intn(4)
	plans := cons.RandomPlans(r, 1, -n, false, cons.CheatBelowThird)
	cfg := &cons.GenCfg{Plans: plans, EventsPer: 12*n + r.Intn(20*n), MinParents: 1, MaxParents: 2 + r.Intn(3), ForkProb: 0.05}
	d, _, err := cons.Generate(r, cfg)
	if err != nil || len(d.Epochs) == 0 {
		c.Count("other_property_discrepancy_built-event-rejected", 1)
		return
	}
	evs := d.Epochs[0].Events
	in := cons.NewInst(plans[0].Epoch, plans[0].Validators(), nil, cons.InstCfg{Index: cons.IndexCfg(i % 3)})
	sets := func(bl []*cons.Block) []string {
		var out []string
		for _, b := range bl {
			var ids []string
			for _, h := range b.Events {
				ids = append(ids, h.Hex())
			}
			sort.Strings(ids)
			out = append(out, fmt.Sprintf("f%d %s %d:%v", b.Frame, b.Atropos.Hex(), len(ids), ev.Hash(ids)))
		}
		return out
	}
	for _, e := range evs {
		if err := in.Process(e); err != nil {
			c.Count("other_property_discrepancy_"+cons.DEventRejected, 1)
			return
		}
	}
	first := sets(in.Blocks)
	firstBlocks := in.Blocks
	for round := 0; round < 2; round++ {
		in.Blocks = nil
		if err := in.Reset(plans[0].Epoch, plans[0].Validators()); err != nil {
			c.Violation(cons.DCrit, map[string]interface{}{"case": i, "err": "Reset to the same epoch: " + err.Error()})
			return
		}
		for _, e := range cons.Order(r, evs, cons.OrderKind([]cons.OrderKind{cons.OrdGen, cons.OrdRandom}[round])) {
			if err := in.Process(e); err != nil {
				c.Count("other_property_discrepancy_"+cons.DEventRejected, 1)
				return
			}
		}
		second := sets(in.Blocks)
		c.Eval(1)
		for k := range first {
			if k >= len(second) || first[k] != second[k] {
				got := "no such block"
				if k < len(second) {
					got = second[k]
				}
				c.Violation(cons.DDelivered, map[string]interface{}{"case": i, "round": round, "why": "after Reset to the same epoch and a replay of the same events, a block delivers other events than the first time",
					"block": k, "first_time": first[k], "after_reset": got, "events_first_time": len(firstBlocks[k].Events), "dag": describeDAG(d)})
				return
			}
		}
		c.Count("blocks_compared_after_a_same_epoch_reset", int64(len(first)))
	}
	if len(first) >= 2 {
		c.Nontrivial(ev.Hash("reset-replay", d.FP))
	}
}
