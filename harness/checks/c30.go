package checks

import (
	"fmt"
	"math"
	"math/rand"
	"sync"
	"sync/atomic"
	"time"

	"github.com/Fantom-foundation/lachesis-base/inter/dag"
	"github.com/Fantom-foundation/lachesis-base/inter/idx"
	"github.com/Fantom-foundation/lachesis-base/utils/datasemaphore"

	"verif/ev"
)

// C30 Events semaphore bounds, waits and times out correctly.
func init() { register("C30", "exploration", runC30) }

func c30m(n int, s int) dag.Metric { return dag.Metric{Num: idx.Event(n), Size: uint64(s)} }

func runC30(c *ev.Ctx) {
	c.Rule = "(A) sequential model check: random sequences of TryAcquire / non-blocking Acquire (fitting, oversize, after Terminate) / Release (also over-release) / Processing / Available / Terminate vs a two-counter model, warning callback expected exactly on over-release with the held amount reset to zero; " +
		"(B) real-time scenarios (timeout T = 60..120 ms, scheduling canary, verdict margins >= 1 s): fitting request returns true at once; oversize request returns false at once; a waiting request returns true shortly after a sufficient release; with NO release, or with releases that never suffice, the request returns false not before T and shortly after T (refuting observation: still blocked 3 s after T while the canary is healthy); " +
		"Terminate makes all blocked callers return false and later non-empty requests are refused; (C) 4-8 concurrent acquirers with a ledger of amounts they hold (added after a grant, removed before the release): ledger and Processing() never exceed the capacity and return to zero. " +
		"non-trivial = distinct model sequences with an over-release and a Terminate, plus every blocking scenario"
	c.Assumptions = []string{"timing verdicts assume the canary goroutine was scheduled within 150 ms throughout the scenario, otherwise the attempt is inconclusive and retried", "weights use both dimensions (count and size)"}
	// ---- (A)
	nA := c.Pick(40000, 1000000)
	c.Parallel(nA, 0, func(i int) { c30Model(c, c.Rand("model", i), i) })
	// ---- (B)
	nB := c.Pick(48, 1200)
	c.Parallel(nB, 8, func(i int) { c30Blocking(c, c.Rand("block", i), i) })
	// ---- (C)
	nC := c.Pick(40, 600)
	c.Parallel(nC, 4, func(i int) { c30Concurrent(c, c.Rand("conc", i), i) })
}

func c30Model(c *ev.Ctx, r *rand.Rand, caseN int) {
	maxN, maxS := 1+r.Intn(6), 1+r.Intn(50)
	warned := 0
	s := datasemaphore.New(c30m(maxN, maxS), func(received, processing, releasing dag.Metric) { warned++ })
	curN, curS := 0, 0
	term := false
	var log []string
	overRelease := false
	fail := func(why string) {
		c.Violation("semaphore-differs-from-model", map[string]interface{}{"case": caseN, "capacity": fmt.Sprint(c30m(maxN, maxS)), "ops": log, "why": why})
	}
	for op := 0; op < 40; op++ {
		n, sz := r.Intn(maxN+2), r.Intn(maxS+10)
		w := c30m(n, sz)
		capN, capS := maxN, maxS
		if term {
			capN, capS = 0, 0
		}
		fits := curN+n <= capN && curS+sz <= capS
		switch k := r.Intn(10); {
		case k < 3:
			log = append(log, "TryAcquire"+w.String())
			got := s.TryAcquire(w)
			if got != fits {
				fail(fmt.Sprintf("TryAcquire=%v, model %v", got, fits))
				return
			}
			if fits {
				curN, curS = curN+n, curS+sz
			}
		case k < 5:
			// only the non-blocking outcomes of Acquire: fits now, or can never fit
			never := n > capN || sz > capS
			if !fits && !never {
				continue
			}
			log = append(log, "Acquire"+w.String())
			done := make(chan bool, 1)
			go func() { done <- s.Acquire(w, 50*time.Millisecond) }()
			select {
			case got := <-done:
				if got != fits {
					fail(fmt.Sprintf("Acquire=%v, model %v", got, fits))
					return
				}
			case <-time.After(20 * time.Second):
				fail("Acquire of a request that fits or can never fit did not return within 20 s")
				return
			}
			if fits {
				curN, curS = curN+n, curS+sz
			}
		case k < 8:
			log = append(log, "Release"+w.String())
			before := warned
			s.Release(w)
			if curN < n || curS < sz {
				overRelease = true
				if warned != before+1 {
					fail("over-release not reported")
					return
				}
				curN, curS = 0, 0
			} else {
				if warned != before {
					fail("warning without over-release")
					return
				}
				curN, curS = curN-n, curS-sz
			}
		case k < 9:
			log = append(log, "Terminate")
			s.Terminate()
			term = true
		default:
			log = append(log, "Processing/Available")
		}
		if p := s.Processing(); int(p.Num) != curN || int(p.Size) != curS {
			fail(fmt.Sprintf("Processing()=%v, model {%d %d}", p, curN, curS))
			return
		}
		if !term {
			if a := s.Available(); int(a.Num) != maxN-curN || int(a.Size) != maxS-curS {
				fail(fmt.Sprintf("Available()=%v, model {%d %d}", a, maxN-curN, maxS-curS))
				return
			}
		}
		if curN > maxN || curS > maxS {
			fail("held amount exceeds capacity")
			return
		}
		c.Count("model_operations_checked", 1)
	}
	c.Eval(1)
	if overRelease && term {
		c.Nontrivial(ev.Hash(log))
	}
	if c.WantSample() {
		c.Sample(map[string]interface{}{"kind": "model", "case": caseN, "capacity": fmt.Sprint(c30m(maxN, maxS)), "ops": log})
	}
}

func c30Blocking(c *ev.Ctx, r *rand.Rand, caseN int) {
	kind := caseN % 10
	T := time.Duration(60+r.Intn(60)) * time.Millisecond
	const margin = time.Second
	scenario := func() (string, map[string]interface{}) {
		s := datasemaphore.New(c30m(4, 100), nil)
		s.TryAcquire(c30m(3, 60)) // held by somebody else
		start := time.Now()
		res := make(chan bool, 4)
		took := func() time.Duration { return time.Since(start) }
		d := map[string]interface{}{"case": caseN, "timeout": T.String()}
		switch kind {
		case 0: // fits: immediate
			go func() { res <- s.Acquire(c30m(1, 40), T) }()
			select {
			case ok := <-res:
				d["returned"], d["after"] = ok, took().String()
				if !ok {
					return "fitting-request-refused", d
				}
				if took() > margin {
					return "fitting-request-not-granted-at-once", d
				}
			case <-time.After(3*time.Second + T):
				return "fitting-request-blocked", d
			}
		case 1: // oversize: immediate false
			go func() { res <- s.Acquire(c30m(5, 10), T) }()
			select {
			case ok := <-res:
				d["returned"], d["after"] = ok, took().String()
				if ok {
					return "oversize-request-granted", d
				}
				if took() > margin {
					return "oversize-request-not-refused-at-once", d
				}
			case <-time.After(3*time.Second + T):
				return "oversize-request-blocked", d
			}
		case 2: // sufficient release after a delay: granted shortly after
			delay := T / 3
			go func() { res <- s.Acquire(c30m(2, 50), T) }()
			time.Sleep(delay)
			rel := time.Now()
			s.Release(c30m(2, 30))
			select {
			case ok := <-res:
				d["returned"], d["after_release"], d["released_after"] = ok, time.Since(rel).String(), rel.Sub(start).String()
				if !ok {
					if rel.Sub(start) >= T-2*time.Millisecond {
						// the harness itself was held up: its release came at or after the request's deadline,
						// so "false" is what a correct semaphore answers - nothing can be concluded from this run
						return rtInconclusive, d
					}
					return "waiting-request-refused-although-enough-was-released-in-time", d
				}
				if time.Since(rel) > margin {
					return "waiting-request-granted-too-late", d
				}
			case <-time.After(3*time.Second + T):
				return "waiting-request-not-granted-after-sufficient-release", d
			}
			if p := s.Processing(); p.Num != 3 || p.Size != 80 {
				d["processing"] = p.String()
				return "held-amount-wrong-after-grant", d
			}
		case 9: // "wait for ever": the largest timeouts there are; the request waits until enough is released
			huge := []time.Duration{math.MaxInt64, math.MaxInt64 - 1, 1 << 62, 250 * 365 * 24 * time.Hour}[caseN/10%4]
			d["timeout"] = huge.String()
			go func() { res <- s.Acquire(c30m(2, 50), huge) }()
			time.Sleep(T / 3)
			select {
			case ok := <-res:
				d["returned"], d["after"] = ok, took().String()
				if ok {
					return "unsatisfiable-request-granted", d
				}
				return "request-refused-before-its-timeout", d
			default:
			}
			rel := time.Now()
			s.Release(c30m(2, 30))
			select {
			case ok := <-res:
				d["returned"], d["after_release"] = ok, time.Since(rel).String()
				if !ok {
					return "waiting-request-refused-although-enough-was-released-in-time", d
				}
				if time.Since(rel) > margin {
					return "waiting-request-granted-too-late", d
				}
			case <-time.After(4 * time.Second):
				s.Terminate()
				return "waiting-request-not-granted-after-sufficient-release", d
			}
		case 8: // a request as large as the whole capacity (in one dimension) waits until everything is released, then is granted
			req := c30m(4, 10)
			if caseN/9%2 == 1 {
				req = c30m(1, 100)
			}
			go func() { res <- s.Acquire(req, 10*time.Second) }()
			time.Sleep(T / 3)
			select {
			case ok := <-res:
				d["returned"], d["after"] = ok, took().String()
				if ok {
					return "request-granted-beyond-capacity", d
				}
				return "capacity-sized-request-refused-instead-of-waiting", d
			default:
			}
			rel := time.Now()
			s.Release(c30m(3, 60))
			select {
			case ok := <-res:
				d["returned"], d["after_release"] = ok, time.Since(rel).String()
				if !ok {
					return "capacity-sized-request-refused-instead-of-waiting", d
				}
				if time.Since(rel) > margin {
					return "waiting-request-granted-too-late", d
				}
			case <-time.After(4 * time.Second):
				s.Terminate()
				return "waiting-request-not-granted-after-sufficient-release", d
			}
		case 3, 4: // no release at all (3) / releases that never suffice and stop early (4): false at about T
			go func() { res <- s.Acquire(c30m(2, 50), T) }()
			if kind == 4 {
				go func() {
					time.Sleep(T / 4)
					s.Release(c30m(0, 5))
					time.Sleep(T / 4)
					s.Release(c30m(0, 5))
				}()
			}
			select {
			case ok := <-res:
				d["returned"], d["after"] = ok, took().String()
				if ok {
					return "unsatisfiable-request-granted", d
				}
				if took() < T-2*time.Millisecond {
					return "request-refused-before-its-timeout", d
				}
				if took() > T+margin {
					return "request-refused-long-after-its-timeout", d
				}
			case <-time.After(T + 3*time.Second):
				d["still_blocked_after"] = took().String()
				s.Terminate()
				if kind == 3 {
					return "acquire-blocked-past-timeout-without-release", d
				}
				return "acquire-blocked-past-timeout-with-insufficient-releases", d
			}
		case 7: // an over-release resets the held amount to zero: a blocked request that now fits is granted at once
			go func() { res <- s.Acquire(c30m(2, 50), 10*time.Second) }()
			time.Sleep(T / 3)
			rel := time.Now()
			s.Release(c30m(4, 10)) // more than the 3 held
			select {
			case ok := <-res:
				d["returned"], d["after_over_release"] = ok, time.Since(rel).String()
				if !ok {
					return "waiting-request-refused-after-over-release", d
				}
				if time.Since(rel) > margin {
					return "waiting-request-granted-too-late", d
				}
			case <-time.After(4 * time.Second):
				s.Terminate()
				return "waiting-request-not-granted-after-over-release", d
			}
		case 6: // two waiters with different timeouts, nobody releases: each returns false at ITS OWN deadline
			long := T + 1500*time.Millisecond
			resL, resS := make(chan time.Duration, 1), make(chan time.Duration, 1)
			go func() {
				if s.Acquire(c30m(2, 50), long) {
					resL <- -1
				} else {
					resL <- took()
				}
			}()
			time.Sleep(5 * time.Millisecond)
			go func() {
				if s.Acquire(c30m(2, 50), T) {
					resS <- -1
				} else {
					resS <- took() - 5*time.Millisecond
				}
			}()
			for k := 0; k < 2; k++ {
				select {
				case tS := <-resS:
					d["short_returned_after"] = tS.String()
					if tS < 0 {
						return "unsatisfiable-request-granted", d
					}
					if tS < T-2*time.Millisecond {
						return "request-refused-before-its-timeout", d
					}
					if tS > T+margin {
						return "request-refused-long-after-its-timeout", d
					}
				case tL := <-resL:
					d["long_returned_after"] = tL.String()
					if tL < 0 {
						return "unsatisfiable-request-granted", d
					}
					if tL < long-2*time.Millisecond {
						return "request-refused-before-its-timeout", d
					}
					if tL > long+margin {
						return "request-refused-long-after-its-timeout", d
					}
				case <-time.After(long + 3*time.Second):
					d["still_blocked_after"] = took().String()
					s.Terminate()
					return "acquire-blocked-past-timeout-with-another-waiter", d
				}
			}
		default: // Terminate wakes every waiter with false; later non-empty requests are refused
			for k := 0; k < 3; k++ {
				go func() { res <- s.Acquire(c30m(2, 50), 10*time.Second) }()
			}
			time.Sleep(T / 2)
			tt := time.Now()
			s.Terminate()
			for k := 0; k < 3; k++ {
				select {
				case ok := <-res:
					if ok {
						return "waiter-granted-by-terminate", d
					}
				case <-time.After(3 * time.Second):
					d["since_terminate"] = time.Since(tt).String()
					return "waiter-still-blocked-after-terminate", d
				}
			}
			if s.TryAcquire(c30m(1, 1)) || s.Acquire(c30m(1, 0), T) {
				return "request-granted-after-terminate", d
			}
		}
		return "", nil
	}
	cls, detail, inc := rtVerdict(3, 150*time.Millisecond, scenario)
	c.Inconclusive(int64(inc))
	c.Eval(1)
	c.Count(fmt.Sprintf("blocking_scenarios_kind_%d", kind), 1)
	if cls != "" {
		detail["scenario_kind"] = []string{"fits", "oversize", "granted after release", "no release", "insufficient releases", "terminate", "two waiters with different timeouts", "over-release while a request waits", "request as large as the capacity", "timeout of (nearly) the largest duration"}[kind]
		c.Violation(cls, detail)
		return
	}
	c.Nontrivial(ev.Hash("blocking", caseN, T))
	if kind == 3 && c.WantSample() {
		c.Sample(map[string]interface{}{"kind": "blocking: no release while waiting", "timeout": T.String(), "expected": "false at about the timeout"})
	}
}

func c30Concurrent(c *ev.Ctx, r *rand.Rand, caseN int) {
	capN, capS := 3+r.Intn(4), 50+r.Intn(100)
	s := datasemaphore.New(c30m(capN, capS), nil)
	var heldN, heldS int64
	var bad atomic.Value
	workers := 4 + r.Intn(5)
	var wg sync.WaitGroup
	var grants, refusals int64
	seeds := make([]int64, workers)
	for i := range seeds {
		seeds[i] = r.Int63()
	}
	for w := 0; w < workers; w++ {
		wg.Add(1)
		go func(w int) {
			defer wg.Done()
			rr := rand.New(rand.NewSource(seeds[w]))
			for k := 0; k < 200; k++ {
				n, sz := 1+rr.Intn(capN), 1+rr.Intn(capS)
				var ok bool
				if rr.Intn(2) == 0 {
					ok = s.TryAcquire(c30m(n, sz))
				} else {
					ok = s.Acquire(c30m(n, sz), time.Duration(rr.Intn(3))*time.Millisecond)
				}
				if !ok {
					atomic.AddInt64(&refusals, 1)
					continue
				}
				atomic.AddInt64(&grants, 1)
				hn, hs := atomic.AddInt64(&heldN, int64(n)), atomic.AddInt64(&heldS, int64(sz))
				if hn > int64(capN) || hs > int64(capS) {
					bad.Store(fmt.Sprintf("ledger of granted amounts {%d %d} exceeds the capacity {%d %d}", hn, hs, capN, capS))
				}
				if p := s.Processing(); int(p.Num) > capN || int(p.Size) > capS {
					bad.Store(fmt.Sprintf("Processing()=%v exceeds the capacity {%d %d}", p, capN, capS))
				}
				if rr.Intn(4) == 0 {
					time.Sleep(time.Duration(rr.Intn(200)) * time.Microsecond)
				}
				atomic.AddInt64(&heldN, -int64(n))
				atomic.AddInt64(&heldS, -int64(sz))
				s.Release(c30m(n, sz))
			}
		}(w)
	}
	done := make(chan struct{})
	go func() { wg.Wait(); close(done) }()
	select {
	case <-done:
	case <-time.After(120 * time.Second):
		c.Violation("concurrent-acquirers-hang", map[string]interface{}{"case": caseN, "workers": workers, "capacity": fmt.Sprint(c30m(capN, capS))})
		return
	}
	c.Eval(1)
	c.Count("concurrent_grants", grants)
	c.Count("concurrent_refusals", refusals)
	if b := bad.Load(); b != nil {
		c.Violation("capacity-exceeded-under-concurrency", map[string]interface{}{"case": caseN, "workers": workers, "why": b})
		return
	}
	if p := s.Processing(); p.Num != 0 || p.Size != 0 {
		c.Violation("held-amount-not-zero-after-all-releases", map[string]interface{}{"case": caseN, "processing": p.String()})
		return
	}
	c.Nontrivial(ev.Hash("conc", caseN, workers, capN, capS))
}
