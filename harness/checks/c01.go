package checks

import (
	"verif/cons"
	"verif/ev"
)

// C01 Order-independent agreement on blocks: k instances (plus the generating instance) fed the same valid
// events of each epoch in different parents-first orders accept everything and emit identical block logs
// and epoch transitions.
func init() { register("C01", "exploration", runC01) }

func runC01(c *ev.Ctx) {
	c.Rule = "multi-epoch DAGs (1..10 validators, thorough ..16; all weight regimes; lag, partitions, forks by a <1/3-weight cheater set; validator-set changes at seeded sealing frames) generated through a real instance; " +
		"k fresh instances process the per-epoch event sets in different parents-first orders (random topological, depth-first, breadth-first, one creator as late / as early as possible, roots last / first) with three vector-index cache configurations; " +
		"oracle: every Process returns nil, every instance seals each epoch, and all block logs (epoch, frame, Atropos, cheaters, sealed flag) are pairwise equal to the generating instance's log. " +
		"Plus targeted seals: dry runs find frames that some order decides inside the Process call of a multi-frame root or in a cascade; the epoch is sealed exactly there and 6 orders must accept every event, seal, and emit equal logs. " +
		"non-trivial = distinct DAG fingerprint with >=3 blocks and >=2 orders that differ in the arrival order of root events"
	c.Assumptions = []string{"events are valid by construction (built through Build, parents exist, Lamport/seq consistent)", "cheaters hold < 1/3 of the weight in every epoch",
		"left-over events of a sealed epoch are dropped by the driver, as the epoch checker does in a node"}
	o := &campOpts{nDAGs: c.Pick(300, 6000), orders: c.Pick(4, 8), maxN: c.Pick(10, 16), minEvents: 60, maxEvents: c.Pick(350, 700), maxEpochs: 4,
		cheat: cons.CheatBelowThird, pairwise: true,
		mine: map[string]bool{cons.DEventRejected: true, cons.DCrit: true, cons.DSealMismatch: true, "built-event-rejected": true},
		nontrivial: func(d *cons.DAG, ts []*cons.Trace) bool {
			fps := map[uint64]bool{}
			ok := false
			for _, t := range ts {
				fps[t.RootOrderFP] = true
				if len(t.Blocks) >= 3 {
					ok = true
				}
			}
			return ok && len(fps) >= 2
		}}
	nSeal := c.Pick(1000, 12000)
	c.Parallel(nSeal, 0, func(i int) { c01TargetedSeal(c, i) })
	runCampaign(c, o)
}
