package checks

import (
	"fmt"
	"strings"
	"sync"

	"verif/ev"
	"verif/kvm"
)

// C23 Storage backends and wrappers share one key-value semantics.
func init() { register("C23", "exploration", runC23) }

func runC23(c *ev.Ctx) {
	c.Rule = "one random sequence of 70 operations (put, delete, get/has, full and partial iteration with prefix/start incl. nil, 0xff and a\\xff prefixes, batch put/delete/write/reset/replay-into-a-recorder, snapshot take/get/iterate/release, flushes of random flushable layers) over the colliding alphabet {00,01,'a','b',fe,ff} (keys 0-4 bytes, values 0-3 bytes, never nil) " +
		"is applied in lock-step to the sorted-map model and to 12 stacks: memory, LevelDB, Pebble, table/memory, table/table/Pebble, flushable/LevelDB, table/flushable/Pebble, flushable/memory, synced/table/LevelDB, flushable/table/LevelDB, synced/table/flushable/Pebble, lazy-flushable/memory; every output is compared, caller buffers are overwritten after each write call, and the full content is compared at the end. " +
		"non-trivial = distinct sequences that contain an empty value, an iteration with a prefix ending in 0xff, a batch replay and a snapshot read after the store diverged from the snapshot"
	c.Assumptions = []string{"keys and values are non-nil", "a batch is Reset before it is reused after Write", "iterator Key/Value are copied before Next"}
	nSeq := c.Pick(8000, 300000)
	workers := 16
	var mu sync.Mutex
	firstErr := ""
	c.Parallel(workers, workers, func(w int) {
		bench, err := kvm.NewBench(fmt.Sprintf("c23-%d", w))
		if err != nil {
			mu.Lock()
			firstErr = err.Error()
			mu.Unlock()
			return
		}
		defer bench.Close()
		for s := w; s < nSeq; s += workers {
			r := c.Rand("seq", s)
			if err := bench.Wipe(); err != nil {
				c.Violation("wipe-failed", map[string]interface{}{"err": err.Error()})
				return
			}
			world := newKVWorld(bench.Stacks())
			bad := ""
			p, stack := ev.Try(func() {
				for op := 0; op < 70 && bad == ""; op++ {
					bad = world.step(r)
				}
				if bad == "" {
					bad = world.finish()
				}
			})
			if p != nil {
				bad = fmt.Sprintf("panic: %v\n%s", p, stack)
			}
			c.Eval(1)
			if bad != "" {
				stackName := "?"
				if i := strings.Index(bad, "]"); strings.HasPrefix(bad, "[") && i > 0 {
					stackName = bad[1:i]
				}
				c.Violation("stack-differs-from-map-model:"+stackName, map[string]interface{}{"sequence": s, "ops": world.log, "mismatch": bad})
				continue
			}
			for k, v := range world.stats {
				c.Count("ops_"+k, int64(v))
			}
			if world.stats["empty_value_put"] > 0 && world.stats["iterate_prefix_ending_ff"] > 0 && world.stats["batch_replay"] > 0 && world.stats["snapshot_read_after_divergence"] > 0 {
				c.Nontrivial(ev.Hash(world.log))
			}
			if c.WantSample() {
				c.Sample(map[string]interface{}{"sequence": s, "ops": world.log})
			}
		}
	})
	if firstErr != "" {
		fmt.Println("BROKEN: cannot create on-disk backends:", firstErr)
	}
	c.Count("stacks_per_sequence", 12)
}
