package checks

import (
	"bytes"
	"fmt"
	"math/rand"

	"github.com/Fantom-foundation/lachesis-base/kvdb"
	"github.com/Fantom-foundation/lachesis-base/kvdb/flaggedproducer"
	"github.com/Fantom-foundation/lachesis-base/kvdb/flushable"

	"verif/ev"
	"verif/memdisk"
)

// C25 Multi-database flushes are crash consistent (fault enumeration over every durable-operation prefix).
func init() { register("C25", "fault_enumeration", runC25) }

var c25fidKey = []byte("\x00flushID")

type c25prod interface {
	kvdb.FlushableDBProducer
	Initialize(dbNames []string, flushID []byte) ([]byte, error)
}

func c25mk(kind int, d *memdisk.Disk) c25prod {
	if kind == 0 {
		return flushable.NewSyncedPool(d.Producer(), c25fidKey)
	}
	return flaggedproducer.Wrap(d.Producer(), c25fidKey)
}

type c25state map[string]map[string]string // db -> key -> value

func (s c25state) copy() c25state {
	c := c25state{}
	for n, m := range s {
		cm := map[string]string{}
		for k, v := range m {
			cm[k] = v
		}
		c[n] = cm
	}
	return c
}

type c25flush struct {
	id    []byte
	state c25state
}

// c25life runs one process lifetime on disk d starting from logical state `logical`, recording flushes.
// Returns the script. The disk records a snapshot after every durable operation.
type c25world struct {
	big        bool
	reuseAfter map[string]int // dropped name -> flush count at the drop (the name may be used again after a later flush)
	r          *rand.Rand
	kind       int
	gen        map[string]int
	nFlush     *int
	flushes    *[]c25flush
}

func (w *c25world) life(d *memdisk.Disk, p c25prod, logical c25state, nOps int, names []string) (script []string, err error) {
	open := map[string]kvdb.Store{}
	kept := map[string]kvdb.Batch{} // batch objects kept and reused (Reset after Write), as long-running code does
	r := w.r
	for op := 0; op < nOps; op++ {
		base := names[r.Intn(len(names))]
		n := fmt.Sprintf("%s%d", base, w.gen[base])
		if at, wait := w.reuseAfter[n]; wait && open[n] == nil {
			if *w.nFlush <= at {
				w.gen[base]++ // no flush since the drop: do not touch the name yet, use a fresh one
				delete(w.reuseAfter, n)
				n = fmt.Sprintf("%s%d", base, w.gen[base])
			} else {
				delete(w.reuseAfter, n)
				script = append(script, "name "+n+" is used again after its drop was flushed")
			}
		}
		ensure := func() error {
			if open[n] == nil {
				db, err := p.OpenDB(n)
				if err != nil {
					return err
				}
				open[n] = db
				if logical[n] == nil {
					logical[n] = map[string]string{}
				}
			}
			return nil
		}
		c := r.Intn(20)
		nKeys := 3
		if w.big {
			nKeys = 6
			if c >= 15 && r.Intn(4) != 0 {
				c = 0 // few flushes: each one carries several big values per database and is written as several batches
			}
		}
		switch {
		case c < 9:
			if err := ensure(); err != nil {
				return script, err
			}
			k, v := []byte{byte('a' + r.Intn(nKeys))}, []byte{byte('A' + op%26), byte(*w.nFlush)}
			if !w.big && r.Intn(8) == 0 {
				v = []byte{} // an empty value is a value
			}
			if w.big && r.Intn(4) != 0 {
				v = append(v, make([]byte, 60000)...)
			}
			if r.Intn(4) == 0 {
				if err := open[n].Delete(k); err != nil {
					return script, err
				}
				delete(logical[n], string(k))
				script = append(script, fmt.Sprintf("del %s %s", n, k))
			} else {
				if err := open[n].Put(k, v); err != nil {
					return script, err
				}
				logical[n][string(k)] = string(v)
				script = append(script, fmt.Sprintf("put %s %s", n, k))
			}
		case c < 12: // batch
			if err := ensure(); err != nil {
				return script, err
			}
			b := kept[n]
			if b == nil || r.Intn(3) == 0 {
				b = open[n].NewBatch()
				kept[n] = b
			}
			emptyBatch := !w.big && r.Intn(6) == 0 // a batch made of nothing but puts of empty values
			for j := 0; j < 2+r.Intn(2); j++ {
				k, v := []byte{byte('a' + r.Intn(4))}, []byte{byte('a' + op%26), byte(j)}
				if emptyBatch {
					v = []byte{}
				}
				if w.big {
					v = append(v, make([]byte, 60000)...) // several of these exceed the ideal batch size: a flush is split into batches
				}
				if r.Intn(4) == 0 && !emptyBatch {
					b.Delete(k)
					delete(logical[n], string(k))
				} else {
					b.Put(k, v)
					logical[n][string(k)] = string(v)
				}
			}
			if err := b.Write(); err != nil {
				return script, err
			}
			b.Reset()
			script = append(script, "batch "+n)
		case c < 14: // close + drop; a re-created database gets a fresh name
			if open[n] != nil {
				_ = open[n].Close()
				open[n].Drop()
				delete(open, n)
				delete(kept, n)
				delete(logical, n)
				if r.Intn(2) == 0 {
					w.gen[base]++ // a re-created database gets a fresh name ...
				} else {
					// ... or, once a flush has carried the drop out, the very same name again
					if w.reuseAfter == nil {
						w.reuseAfter = map[string]int{}
					}
					w.reuseAfter[n] = *w.nFlush
				}
				script = append(script, "drop "+n)
			}
		case c < 15: // late open without writing
			if err := ensure(); err != nil {
				return script, err
			}
			script = append(script, "open "+n)
		default:
			*w.nFlush++
			id := []byte{byte(*w.nFlush), byte(*w.nFlush >> 8), 'f'}
			if err := p.Flush(id); err != nil {
				return script, fmt.Errorf("flush: %v", err)
			}
			*w.flushes = append(*w.flushes, c25flush{id: id, state: logical.copy()})
			script = append(script, fmt.Sprintf("flush #%d", *w.nFlush))
		}
	}
	return script, nil
}

// c25judge restarts over image im and compares what Initialize reports with the flush ledger.
// Returns (violation class, detail, index of the reported flush or -1 when dirty/unsynchronised was reported).
func c25judge(kind int, im memdisk.Image, flushes []c25flush) (string, string, int) {
	d2 := memdisk.FromImage(im)
	p2 := c25mk(kind, d2)
	var id []byte
	var err error
	if pn, _ := ev.Try(func() { id, err = p2.Initialize(d2.Producer().Names(), nil) }); pn != nil {
		return "initialize-panics", fmt.Sprint(pn), -1
	}
	if err != nil {
		return "", "", -1
	}
	fi := -1
	for i := range flushes {
		if (id == nil && flushes[i].id == nil) || (id != nil && flushes[i].id != nil && bytes.Equal(append([]byte{flushable.CleanPrefix}, flushes[i].id...), id)) {
			fi = i
		}
	}
	if fi < 0 {
		return "unknown-flush-id-reported", fmt.Sprintf("id=%x", id), -1
	}
	fr := flushes[fi]
	for dn, want := range fr.state {
		got, present := im[dn]
		cnt := 0
		for k, v := range got {
			if k == string(c25fidKey) {
				continue
			}
			cnt++
			if wv, ok := want[k]; !ok || wv != string(v) {
				return "contents-differ-from-reported-flush", fmt.Sprintf("db %s key %q = %q, at flush #%d it was %q (present=%v)", dn, k, v, fi, wv, ok), fi
			}
		}
		if !present && len(want) > 0 {
			return "database-present-at-reported-flush-is-missing", fmt.Sprintf("db %s held %d keys at flush #%d and is gone", dn, len(want), fi), fi
		}
		if cnt != len(want) {
			return "contents-differ-from-reported-flush", fmt.Sprintf("db %s holds %d keys, at flush #%d it held %d", dn, cnt, fi, len(want)), fi
		}
	}
	for dn, got := range im {
		if _, ok := fr.state[dn]; !ok {
			for k := range got {
				if k != string(c25fidKey) {
					return "database-absent-at-reported-flush-has-data", fmt.Sprintf("db %s key %q", dn, k), fi
				}
			}
		}
	}
	return "", "", fi
}

func runC25(c *ev.Ctx) {
	c.Rule = "histories of 30 operations over 2-4 databases (puts, deletes, 2-3 operation batches, close+drop with re-created databases under fresh names or, after a flush carried the drop out, under the very same name, late opens, flushes with unique ids) through flushable.SyncedPool and through flaggedproducer.Producer over the in-memory crash disk; the disk snapshots itself after EVERY durable operation (each put, delete, batch write, database drop - also those issued inside Flush: dirty marks, data batches, clean marks). " +
		"For every snapshot: a new pool/producer over a copy, Initialize(Names(), nil). Oracle: an error (dirty / not synced / not initialised) is fine; otherwise the returned id must be a flush id of the ledger (nil = 'before the first flush', everything empty), every database of that flush holds exactly its contents at that flush (marker key ignored), databases absent at that flush are absent or empty. " +
		"Second lifetime: from a sample of cleanly recovered crash points the history continues (10 more operations) and every crash point of the continuation is judged too. non-trivial = distinct (history, crash point) pairs lying inside a Flush call or directly after a database drop, in histories with >=3 databases and a drop between two flushes"
	c.Assumptions = []string{"a batch write is atomic on the disk", "a crash loses everything not yet handed to the underlying database (buffered writes of the pool)", "Initialize is called with all database names present on disk"}
	nH := c.Pick(3000, 60000)
	c.Parallel(nH, 0, func(h int) {
		r := c.Rand("hist", h)
		kind := h % 2
		d := memdisk.New()
		d.Record = true
		p := c25mk(kind, d)
		names := []string{"A", "B", "C", "D"}[:2+r.Intn(3)]
		if h%10 >= 8 {
			names = names[:2] // big values: few databases, so that one flush carries several of them per database and is split into batches
		}
		nFlush := 0
		flushes := []c25flush{{id: nil, state: c25state{}}}
		w := &c25world{r: r, kind: kind, gen: map[string]int{}, nFlush: &nFlush, flushes: &flushes, big: h%10 >= 8}
		if w.big {
			c.Count("histories_with_values_beyond_the_ideal_batch_size", 1)
		}
		logical := c25state{}
		var script []string
		var lerr error
		pn, stack := ev.Try(func() { script, lerr = w.life(d, p, logical, 30, names) })
		kindName := []string{"SyncedPool", "flaggedproducer"}[kind]
		desc := func() map[string]interface{} {
			return map[string]interface{}{"history": h, "producer": kindName, "script": script}
		}
		if pn != nil || lerr != nil {
			m := desc()
			m["panic"], m["err"], m["stack"] = fmt.Sprint(pn), fmt.Sprint(lerr), stack
			c.Violation("history-fails-without-any-crash", m)
			return
		}
		dropBetweenFlushes := false
		seenFlush := false
		for _, s := range script {
			if len(s) > 5 && s[:5] == "flush" {
				seenFlush = true
			}
			if seenFlush && len(s) > 4 && s[:4] == "drop" {
				dropBetweenFlushes = true
			}
		}
		// map durable-op index -> was it issued inside a Flush call? (marks and data batches): approximated by
		// the op touching the marker key is not visible here, so count ops per script step instead: crash points
		// directly after a drop are identified from the disk's own op log.
		recovered := []int{}
		for si := 1; si < len(d.Ops); si++ {
			if d.Ops[si].Kind == "batch" && d.Ops[si-1].Kind == "batch" && d.Ops[si].DB == d.Ops[si-1].DB && kind == 0 {
				c.Count("crash_points_between_the_batches_of_one_split_flush", 1)
			}
		}
		for si, snap := range d.Snaps {
			cls, detail, fi := c25judge(kind, snap, flushes)
			c.Eval(1)
			c.Count("crash_points_"+kindName, 1)
			if fi >= 0 {
				c.Count("crash_points_reporting_a_clean_flush", 1)
				recovered = append(recovered, si)
			} else if cls == "" {
				c.Count("crash_points_reporting_dirty_or_unsynced", 1)
			}
			afterDrop := d.Ops[si].Kind == "drop"
			if afterDrop {
				c.Count("crash_points_directly_after_a_drop", 1)
			}
			if cls != "" {
				m := desc()
				m["crash_after_durable_op"], m["durable_op"], m["detail"], m["reported_flush"] = si, fmt.Sprintf("%+v", d.Ops[si]), detail, fi
				lo := si - 5
				if lo < 0 {
					lo = 0
				}
				m["last_durable_ops"] = fmt.Sprintf("%+v", d.Ops[lo:si+1])
				if cls == "database-present-at-reported-flush-is-missing" && afterDrop {
					cls = "database-present-at-reported-flush-is-missing-after-drop:" + kindName
				}
				c.Violation(cls, m)
				return
			}
			if len(names) >= 3 && dropBetweenFlushes && (afterDrop || d.Ops[si].Kind == "batch" || si%3 == 0) {
				c.Nontrivial(ev.Hash(h, si))
			}
		}
		// ---- second lifetime from up to 3 cleanly recovered crash points
		r.Shuffle(len(recovered), func(a, b int) { recovered[a], recovered[b] = recovered[b], recovered[a] })
		if len(recovered) > 3 {
			recovered = recovered[:3]
		}
		for _, si := range recovered {
			_, _, fi := c25judge(kind, d.Snaps[si], flushes)
			d2 := memdisk.FromImage(d.Snaps[si])
			d2.Record = true
			p2 := c25mk(kind, d2)
			if _, err := p2.Initialize(d2.Producer().Names(), nil); err != nil {
				continue
			}
			fl2 := append([]c25flush{}, flushes...)
			nf2 := nFlush
			gen2 := map[string]int{}
			for k, v := range w.gen {
				gen2[k] = v + 100 // fresh names for anything re-created in the second lifetime
			}
			// names in use are those present at the recovered flush; the logical state is that flush's
			logical2 := flushes[fi].state.copy()
			w2 := &c25world{r: r, kind: kind, gen: gen2, nFlush: &nf2, flushes: &fl2, big: w.big}
			var script2 []string
			var err2 error
			pn, _ := ev.Try(func() { script2, err2 = w2.life(d2, p2, logical2, 10, names) })
			if pn != nil || err2 != nil {
				m := desc()
				m["second_lifetime_after_crash_point"], m["script2"], m["panic"], m["err"] = si, script2, fmt.Sprint(pn), fmt.Sprint(err2)
				c.Violation("second-lifetime-fails-without-any-crash", m)
				return
			}
			for sj, snap := range d2.Snaps {
				cls, detail, _ := c25judge(kind, snap, fl2)
				c.Eval(1)
				c.Count("crash_points_second_lifetime", 1)
				if cls != "" {
					m := desc()
					m["second_lifetime_after_crash_point"], m["script2"], m["crash_after_durable_op"], m["durable_op"], m["detail"] = si, script2, sj, fmt.Sprintf("%+v", d2.Ops[sj]), detail
					if cls == "database-present-at-reported-flush-is-missing" && d2.Ops[sj].Kind == "drop" {
						cls = "database-present-at-reported-flush-is-missing-after-drop:" + kindName
					}
					c.Violation(cls, m)
					return
				}
			}
		}
		if c.WantSample() {
			m := desc()
			m["durable_ops"], m["flushes"] = len(d.Ops), nFlush
			c.Sample(m)
		}
	})
}
