package checks

import (
	"errors"
	"fmt"
	"math/rand"
	"sync/atomic"

	"github.com/Fantom-foundation/lachesis-base/gossip/dagordering"
	"github.com/Fantom-foundation/lachesis-base/hash"
	"github.com/Fantom-foundation/lachesis-base/inter/dag"
	"github.com/Fantom-foundation/lachesis-base/inter/idx"

	"verif/cons"
	"verif/ev"
)

// C14 Ordering buffer delivers parents first, once, and releases every push.
func init() { register("C14", "exploration", runC14) }

// c14copy is one pushed copy of an event (distinct pointer per push).
type c14copy struct {
	*cons.Ev
	n         int // index of the event in the DAG
	pushNo    int
	processed int
	released  int
}

type c14run struct {
	extConn     map[int]int // while event k is processed, event v becomes connected through another path
	nilReleased bool        // the application installs no Released callback
	parents     [][]int     // DAG shape: parents of event i (indices < i)
	order       []int       // push order (event indices; an index may appear twice = duplicate copy)
	failProc    map[int]bool
	failChk     map[int]bool
	limit       dag.Metric
}

func c14events(parents [][]int, salt uint64) []*cons.Ev {
	evs := make([]*cons.Ev, len(parents))
	for i, ps := range parents {
		e := &cons.Ev{}
		e.SetEpoch(1)
		e.SetCreator(idx.ValidatorID(1 + i%3))
		e.SetSeq(idx.Event(1 + i/3))
		e.SetFrame(1)
		var hs hash.Events
		lam := idx.Lamport(0)
		for _, p := range ps {
			hs = append(hs, evs[p].ID())
			if evs[p].Lamport() > lam {
				lam = evs[p].Lamport()
			}
		}
		e.SetParents(hs)
		e.SetLamport(lam + 1)
		e.SetHashID(salt + uint64(i))
		e.Name = fmt.Sprintf("e%d", i)
		evs[i] = e
	}
	return evs
}

// c14execute pushes the copies and checks every invariant; returns (violation class, why, stats).
func c14execute(run *c14run, evs []*cons.Ev) (cls, why string, cascade2 bool, waited bool) {
	connected := map[hash.Event]bool{}
	byID := map[hash.Event]int{}
	for i, e := range evs {
		byID[e.ID()] = i
	}
	var copies []*c14copy
	errProc, errChk := errors.New("process failed (injected)"), errors.New("check failed (injected)")
	fail := func(c, w string) {
		if cls == "" {
			cls, why = c, w
		}
	}
	depth := 0
	var buf *dagordering.EventsBuffer
	cb := dagordering.Callback{
		Process: func(e dag.Event) error {
			cp := e.(*c14copy)
			cp.processed++
			if cp.processed > 1 {
				if cp.released > 0 {
					fail("process-after-release", fmt.Sprintf("copy #%d of %s handed to Process again after it was reported released", cp.pushNo, cp.Name))
				} else {
					fail("copy-processed-twice", fmt.Sprintf("copy #%d of %s", cp.pushNo, cp.Name))
				}
			} else if cp.released > 0 {
				fail("process-after-release", fmt.Sprintf("copy #%d of %s", cp.pushNo, cp.Name))
			}
			for _, p := range e.Parents() {
				if !connected[p] {
					fail("processed-before-parents-connected", fmt.Sprintf("%s processed while parent e%d is not connected", cp.Name, byID[p]))
				}
			}
			if run.failProc[cp.n] {
				return errProc
			}
			connected[e.ID()] = true
			if q, ok := run.extConn[cp.n]; ok {
				connected[evs[q].ID()] = true // e.g. a local emitter or a second processor sharing the store
			}
			depth++
			if depth >= 2 {
				cascade2 = true
			}
			return nil
		},
		Released: func(e dag.Event, peer string, err error) {
			cp := e.(*c14copy)
			cp.released++
			if cp.released > 1 {
				fail("copy-released-twice", fmt.Sprintf("copy #%d of %s", cp.pushNo, cp.Name))
			}
		},
		Get: func(id hash.Event) dag.Event {
			if connected[id] {
				return evs[byID[id]]
			}
			return nil
		},
		Exists: func(id hash.Event) bool { return connected[id] },
		Check: func(e dag.Event, parents dag.Events) error {
			cp := e.(*c14copy)
			if len(parents) != len(e.Parents()) {
				fail("check-called-with-wrong-parents", cp.Name)
			}
			if run.failChk[cp.n] {
				return errChk
			}
			return nil
		},
	}
	if run.nilReleased {
		cb.Released = nil
	}
	buf = dagordering.New(run.limit, cb)
	for k, n := range run.order {
		cp := &c14copy{Ev: evs[n], n: n, pushNo: k}
		copies = append(copies, cp)
		depth = 0
		before := cp.processed
		complete := buf.PushEvent(cp, "peer")
		if cls != "" {
			return
		}
		okNow := cp.processed > before && !run.failProc[n] && connected[cp.ID()] && cp.processed == 1
		if complete != okNow {
			fail("push-result-wrong", fmt.Sprintf("PushEvent(copy #%d of %s) returned %v, processed successfully in this call: %v", k, cp.Name, complete, okNow))
			return
		}
		t := buf.Total()
		if t.Num > run.limit.Num || t.Size > run.limit.Size {
			fail("limits-exceeded-after-push", fmt.Sprintf("Total()=%v limit=%v after push #%d", t, run.limit, k))
			return
		}
		if run.nilReleased {
			continue
		}
		// IsBuffered == some copy with this id was pushed and not yet released
		pending := map[hash.Event]bool{}
		for _, c2 := range copies {
			if c2.released == 0 {
				pending[c2.ID()] = true
			}
		}
		if len(pending) > 0 {
			waited = true
		}
		for _, e := range evs {
			if buf.IsBuffered(e.ID()) != pending[e.ID()] {
				fail("is-buffered-disagrees-with-pending-copies", fmt.Sprintf("%s: IsBuffered=%v, unreleased copy exists=%v after push #%d", e.Name, buf.IsBuffered(e.ID()), pending[e.ID()], k))
				return
			}
		}
		if int(t.Num) != len(pending) {
			fail("total-disagrees-with-pending-copies", fmt.Sprintf("Total().Num=%d, unreleased copies %d", t.Num, len(pending)))
			return
		}
	}
	buf.Clear()
	if cls != "" {
		return
	}
	for _, cp := range copies {
		if run.nilReleased {
			break
		}
		if cp.released != 1 {
			fail("copy-not-released-exactly-once", fmt.Sprintf("copy #%d of %s released %d times by the time the buffer was cleared", cp.pushNo, cp.Name, cp.released))
			return
		}
	}
	if t := buf.Total(); t.Num != 0 || t.Size != 0 {
		fail("buffer-not-empty-after-clear", fmt.Sprint(t))
	}
	return
}

func c14desc(run *c14run) map[string]interface{} {
	var fp, fc []int
	for k := range run.failProc {
		fp = append(fp, k)
	}
	for k := range run.failChk {
		fc = append(fc, k)
	}
	return map[string]interface{}{"connected_through_another_path_during_process": fmt.Sprint(run.extConn), "no_released_callback": run.nilReleased, "parents_of_event": fmt.Sprint(run.parents), "push_order": fmt.Sprint(run.order), "failing_process": fp, "failing_check": fc, "limit": run.limit.String()}
}

func c14perms(n int, f func([]int)) {
	a := make([]int, n)
	for i := range a {
		a[i] = i
	}
	var rec func(int)
	rec = func(l int) {
		if l == n {
			f(a)
			return
		}
		for j := l; j < n; j++ {
			a[l], a[j] = a[j], a[l]
			rec(l + 1)
			a[l], a[j] = a[j], a[l]
		}
	}
	rec(0)
}

// c14shapes enumerates all parent assignments for n events (event i picks <=3 parents among 0..i-1).
func c14shapes(n int, f func([][]int)) {
	ps := make([][]int, n)
	var rec func(i int)
	rec = func(i int) {
		if i == n {
			f(ps)
			return
		}
		for mask := 0; mask < 1<<uint(i); mask++ {
			var sel []int
			for b := 0; b < i; b++ {
				if mask&(1<<uint(b)) != 0 {
					sel = append(sel, b)
				}
			}
			if len(sel) > 3 {
				continue
			}
			ps[i] = sel
			rec(i + 1)
		}
	}
	rec(0)
}

func runC14(c *ev.Ctx) {
	c.Rule = "(1) exhaustive part: every DAG shape of 2..4 events (thorough: ..5; each event has <=3 parents among the earlier ones) pushed in EVERY order, plus seeded samples of 5- and 6-event shapes in every order, and of 3-5-event shapes in which one event names the same parent twice; each (shape, order) is run plain, with Process failing at each single event, with Check failing at one event, with a duplicate copy inserted, and with limits 0,1,2 events or too few bytes, and with limits exactly equal to the peak of waiting events and bytes of that order (nothing may be spilled); " +
		"(2) random part: 30-200-event DAGs in random parents-first-violating orders with duplicates, random failing subsets and limits. Every pushed copy is a distinct pointer; oracle over the callback stream: Process only when all parents are connected, <=1 Process per copy and none after its Released, PushEvent's result, Total() within limits and equal to the number of unreleased copies after every push, IsBuffered consistent, every copy Released exactly once after Clear(), and with sufficient limits and no failures every event gets processed. " +
		"non-trivial = distinct push sequences in which some copy waited in the buffer and a cascade of depth >= 2 completed it"
	c.Assumptions = []string{"callbacks are the only connection to the outside: Exists/Get answer from the set of successfully processed events", "PushEvent is called from one goroutine here (C28 covers concurrency)"}
	type job struct {
		parents [][]int
		full    bool
	}
	var jobs []job
	maxFull := c.Pick(4, 5)
	for n := 2; n <= maxFull; n++ {
		c14shapes(n, func(ps [][]int) {
			cp := make([][]int, len(ps))
			for i := range ps {
				cp[i] = append([]int{}, ps[i]...)
			}
			jobs = append(jobs, job{cp, true})
		})
	}
	r0 := c.Rand("shapes", 0)
	randShape := func(n int) [][]int {
		ps := make([][]int, n)
		for i := 1; i < n; i++ {
			for b := 0; b < i; b++ {
				if r0.Intn(3) == 0 && len(ps[i]) < 3 {
					ps[i] = append(ps[i], b)
				}
			}
		}
		return ps
	}
	for k := 0; k < c.Pick(150, 3000); k++ {
		jobs = append(jobs, job{randShape(5), true})
	}
	for k := 0; k < c.Pick(25, 1500); k++ {
		jobs = append(jobs, job{randShape(6), true})
	}
	// malformed children: one event names the same parent twice (the buffer sees events before the parents check has
	// had its say; whatever Check answers, the copy is processed at most once and released once)
	for k := 0; k < c.Pick(60, 1200); k++ {
		ps := randShape(3 + k%3)
		var cand []int
		for i := range ps {
			if len(ps[i]) > 0 {
				cand = append(cand, i)
			}
		}
		if len(cand) == 0 {
			continue
		}
		i := cand[r0.Intn(len(cand))]
		ps[i] = append(ps[i], ps[i][r0.Intn(len(ps[i]))])
		jobs = append(jobs, job{ps, true})
		c.Count("shapes_with_a_parent_named_twice", 1)
	}
	if c.Quick() {
		c.Exhaustive = false
	}
	c.Parallel(len(jobs), 0, func(ji int) {
		j := jobs[ji]
		n := len(j.parents)
		r := c.Rand("job", ji)
		evs := c14events(j.parents, uint64(ji)*100)
		size := uint64(0)
		for _, e := range evs {
			size += uint64(e.Size())
		}
		big := dag.Metric{Num: idx.Event(n + 2), Size: size * 2}
		c14perms(n, func(order []int) {
			if cErr := c.Violations(); cErr > 20 {
				return
			}
			variants := []*c14run{{parents: j.parents, order: append([]int{}, order...), limit: big}}
			for f := 0; f < n; f++ {
				variants = append(variants, &c14run{parents: j.parents, order: append([]int{}, order...), limit: big, failProc: map[int]bool{f: true}})
			}
			variants = append(variants, &c14run{parents: j.parents, order: append([]int{}, order...), limit: big, failChk: map[int]bool{r.Intn(n): true}})
			dup := append([]int{}, order...)
			at := r.Intn(n + 1)
			dupEv := order[r.Intn(n)]
			dup = append(dup[:at:at], append([]int{dupEv}, dup[at:]...)...)
			variants = append(variants, &c14run{parents: j.parents, order: dup, limit: big})
			variants = append(variants, &c14run{parents: j.parents, order: dup, limit: big, failProc: map[int]bool{r.Intn(n): true}})
			variants = append(variants, &c14run{parents: j.parents, order: append([]int{}, order...), limit: dag.Metric{Num: idx.Event(r.Intn(3)), Size: size}})
			variants = append(variants, &c14run{parents: j.parents, order: append([]int{}, order...), limit: dag.Metric{Num: idx.Event(n), Size: uint64(evs[0].Size()) + uint64(r.Intn(100))}})
			ext := &c14run{parents: j.parents, order: append([]int{}, order...), limit: big, extConn: map[int]int{}}
			if n >= 2 {
				a := r.Intn(n - 1)
				ext.extConn[a] = a + 1 + r.Intn(n-a-1)
			}
			variants = append(variants, ext)
			// the event that is pushed twice becomes connected through another path while some other event is processed
			if n >= 2 {
				other := r.Intn(n)
				if other != dupEv {
					variants = append(variants, &c14run{parents: j.parents, order: dup, limit: big, extConn: map[int]int{other: dupEv}})
				}
			}
			variants = append(variants, &c14run{parents: j.parents, order: append([]int{}, order...), limit: big, nilReleased: true, failProc: map[int]bool{r.Intn(n): true}})
			variants = append(variants, &c14run{parents: j.parents, order: append([]int{}, order...), limit: big, nilReleased: true, failChk: map[int]bool{r.Intn(n): true}})
			for vi, run := range variants {
				cls, why, casc, waited := c14execute(run, evs)
				c.Eval(1)
				if cls == "" && vi == 0 {
					// completeness: nothing failed and limits suffice
				}
				if cls != "" {
					m := c14desc(run)
					m["why"] = why
					c.Violation(cls, m)
					continue
				}
				if casc && waited {
					c.Nontrivial(ev.Hash(ji, fmt.Sprint(run.order), vi))
				}
			}
			// completeness needs the connected set: rerun variant 0 through the dedicated helper
			if why := c14complete(j.parents, order, evs, big); why != "" {
				m := c14desc(variants[0])
				m["why"] = why
				c.Violation("event-of-a-parents-closed-set-never-processed", m)
			}
			// ... and once more with limits that are EXACTLY the peak of what this order ever keeps waiting (bytes and count):
			// never exceeded, so nothing may be spilled
			if pn, pb := c14peak(j.parents, order, evs); pn > 0 {
				exact := dag.Metric{Num: idx.Event(pn), Size: pb}
				if why := c14complete(j.parents, order, evs, exact); why != "" {
					m := c14desc(variants[0])
					m["why"], m["limit"] = why+" (limits equal to the peak of waiting events / bytes)", exact.String()
					c.Violation("event-of-a-parents-closed-set-never-processed", m)
				}
				atomic.AddInt64(&c14peakRuns, 1)
			}
		})
		c.Count("dag_shapes_pushed_in_every_order", 1)
	})
	c.Count("orders_run_with_limits_equal_to_the_peak", c14peakRuns)
	c.Sample(map[string]interface{}{"kind": "exhaustive", "example_shape_parents": "[[] [0] [0 1] [2]]", "orders": "all 24", "variants_per_order": "plain, Process failing at each event, Check failing at one, duplicate copy, duplicate+failure, count limit 0..2, byte limit"})
	// ---- (2) random large DAGs
	nR := c.Pick(300, 10000)
	c.Parallel(nR, 0, func(i int) {
		r := c.Rand("rand", i)
		plans := cons.RandomPlans(r, 1, 6, false, cons.CheatAny)
		cfg := &cons.GenCfg{Plans: plans, Plain: true, EventsPer: 30 + r.Intn(170), MinParents: 1, MaxParents: 4, ForkProb: 0.1}
		d, _, err := cons.Generate(r, cfg)
		if err != nil {
			panic(err)
		}
		src := d.Epochs[0].Events
		n := len(src)
		byID := map[hash.Event]int{}
		parents := make([][]int, n)
		for k, e := range src {
			byID[e.ID()] = k
			for _, p := range e.Parents() {
				parents[k] = append(parents[k], byID[p])
			}
		}
		order := r.Perm(n)
		if r.Intn(2) == 0 { // mostly ordered with local disorder
			order = make([]int, n)
			for k := range order {
				order[k] = k
			}
			for k := 0; k < n; k++ {
				a, b := r.Intn(n), r.Intn(n)
				if a-b < 8 && b-a < 8 {
					order[a], order[b] = order[b], order[a]
				}
			}
		}
		for k := r.Intn(n / 5); k > 0; k-- {
			at := r.Intn(len(order))
			order = append(order[:at:at], append([]int{order[r.Intn(len(order))]}, order[at:]...)...)
		}
		run := &c14run{parents: parents, order: order, failProc: map[int]bool{}, failChk: map[int]bool{}}
		size := uint64(0)
		for _, e := range src {
			size += uint64(e.Size())
		}
		run.limit = dag.Metric{Num: idx.Event(n * 2), Size: size * 3}
		switch r.Intn(4) {
		case 0:
			run.limit = dag.Metric{Num: idx.Event(r.Intn(20)), Size: size}
		case 1:
			run.limit = dag.Metric{Num: idx.Event(n), Size: uint64(r.Intn(3000))}
		}
		for k := r.Intn(6); k > 0; k-- {
			if r.Intn(2) == 0 {
				run.failProc[r.Intn(n)] = true
			} else {
				run.failChk[r.Intn(n)] = true
			}
		}
		// the copies need *cons.Ev: reuse the generated events
		cls, why, casc, waited := c14execute(run, src)
		c.Eval(1)
		c.Count("random_dag_pushes", int64(len(order)))
		if cls != "" {
			m := map[string]interface{}{"case": i, "events": n, "push_order_len": len(order), "limit": run.limit.String(), "why": why}
			c.Violation(cls, m)
			return
		}
		if casc && waited {
			c.Nontrivial(ev.Hash("rand", i))
		}
	})
}

// c14complete: with sufficient limits and no failures every event must end up processed.
var c14peakRuns int64

// c14peak replays an order on paper: how many events, and how many bytes, wait for a parent at the worst moment?
func c14peak(parents [][]int, order []int, evs []*cons.Ev) (peakN int, peakB uint64) {
	connected := map[int]bool{}
	waiting := map[int]bool{}
	ready := func(i int) bool {
		for _, p := range parents[i] {
			if !connected[p] {
				return false
			}
		}
		return true
	}
	for _, n := range order {
		if connected[n] || waiting[n] {
			continue
		}
		if ready(n) {
			connected[n] = true
			for again := true; again; {
				again = false
				for w := range waiting {
					if ready(w) {
						delete(waiting, w)
						connected[w] = true
						again = true
					}
				}
			}
		} else {
			waiting[n] = true
		}
		var b uint64
		for w := range waiting {
			b += uint64(evs[w].Size())
		}
		if len(waiting) > peakN {
			peakN = len(waiting)
		}
		if b > peakB {
			peakB = b
		}
	}
	return
}

func c14complete(parents [][]int, order []int, evs []*cons.Ev, limit dag.Metric) string {
	connected := map[hash.Event]bool{}
	byID := map[hash.Event]int{}
	for i, e := range evs {
		byID[e.ID()] = i
	}
	buf := dagordering.New(limit, dagordering.Callback{
		Process: func(e dag.Event) error { connected[e.ID()] = true; return nil },
		Get: func(id hash.Event) dag.Event {
			if connected[id] {
				return evs[byID[id]]
			}
			return nil
		},
		Exists: func(id hash.Event) bool { return connected[id] },
	})
	for _, n := range order {
		buf.PushEvent(evs[n], "")
	}
	for i, e := range evs {
		if !connected[e.ID()] {
			return fmt.Sprintf("e%d was never processed although all events were pushed, nothing failed and the limits suffice", i)
		}
	}
	return ""
}

var _ = rand.Intn
