package checks

import (
	"fmt"
	"math/rand"

	"github.com/Fantom-foundation/lachesis-base/emitter/ancestor"
	"github.com/Fantom-foundation/lachesis-base/hash"

	"verif/ev"
)

// c19Reuse: one MetricStrategy object serves several selections in a row while the metric of the very same events moves
// between the selections (the quorum indexer's metric changes with every processed event). Each pick must be maximal under
// the metric as it is at that selection.
func c19Reuse(c *ev.Ctx, r *rand.Rand, caseN int) {
	pool := make(hash.Events, 8)
	for i := range pool {
		pool[i] = hash.Event{byte(i + 1), byte(caseN), byte(caseN >> 8), 0x19}
	}
	metric := map[hash.Event]ancestor.Metric{}
	var shown hash.Events
	st := ancestor.NewMetricStrategy(func(h hash.Event) ancestor.Metric { return metric[h] })
	spy := c19spy{st, func(ex, o hash.Events) { shown = append(hash.Events{}, o...) }}
	rounds := 2 + r.Intn(3)
	var log []string
	moved := false
	for round := 0; round < rounds; round++ {
		for _, p := range pool {
			if round == 0 || r.Intn(2) == 0 {
				old := metric[p]
				metric[p] = ancestor.Metric(1 + r.Intn(6))
				if round > 0 && old != metric[p] {
					moved = true
				}
			}
		}
		var options hash.Events
		for _, k := range r.Perm(len(pool))[:2+r.Intn(5)] {
			options = append(options, pool[k])
		}
		shown = nil
		var res hash.Events
		if p, _ := ev.Try(func() {
			res = ancestor.ChooseParents(nil, append(hash.Events{}, options...), []ancestor.SearchStrategy{spy})
		}); p != nil {
			c.Violation("choose-parents-panics", map[string]interface{}{"case": caseN, "round": round, "panic": fmt.Sprint(p)})
			return
		}
		log = append(log, fmt.Sprintf("round %d: metric %v options %v -> %v", round, metric, options, res))
		if len(res) != 1 {
			c.Violation("stopped-early-or-late", map[string]interface{}{"case": caseN, "rounds": log, "why": "one strategy and at least two options must add exactly one parent"})
			return
		}
		var best ancestor.Metric
		for _, o := range shown {
			if metric[o] > best {
				best = metric[o]
			}
		}
		if metric[res[0]] != best {
			c.Violation("metric-strategy-not-maximal", map[string]interface{}{"case": caseN, "rounds": log, "picked_metric": metric[res[0]], "maximal_metric": best, "why": "a strategy object reused for a later selection must use the metric as it is then"})
			return
		}
		c.Count("selections_with_a_reused_metric_strategy", 1)
	}
	c.Eval(1)
	if moved {
		c.Nontrivial(ev.Hash("reuse", fmt.Sprint(log)))
	}
}

// c19Direct: (a) a MetricStrategy asked directly, with options that overlap the existing parents it is shown: its pick is an
// option of maximal metric all the same; (b) the caller's heads array serves as both arguments (existing = heads[:k],
// options = heads): the result still starts with heads[:k] in order and repeats nothing.
func c19Direct(c *ev.Ctx, r *rand.Rand, caseN int) {
	pool := make(hash.Events, 8)
	metric := map[hash.Event]ancestor.Metric{}
	for i := range pool {
		pool[i] = hash.Event{byte(i + 1), byte(caseN), byte(caseN >> 8), 0x1d}
		metric[pool[i]] = ancestor.Metric(1 + r.Intn(5))
	}
	st := ancestor.NewMetricStrategy(func(h hash.Event) ancestor.Metric { return metric[h] })
	perm := r.Perm(len(pool))
	var existing, options hash.Events
	for _, k := range perm[:1+r.Intn(3)] {
		existing = append(existing, pool[k])
	}
	for _, k := range r.Perm(len(pool))[:2+r.Intn(5)] {
		options = append(options, pool[k])
	}
	options = append(options, existing[r.Intn(len(existing))]) // overlap
	var pick int
	if p, _ := ev.Try(func() { pick = st.Choose(append(hash.Events{}, existing...), append(hash.Events{}, options...)) }); p != nil {
		c.Violation("choose-parents-panics", map[string]interface{}{"case": caseN, "panic": fmt.Sprint(p), "call": "MetricStrategy.Choose"})
		return
	}
	var best ancestor.Metric
	for _, o := range options {
		if metric[o] > best {
			best = metric[o]
		}
	}
	if pick < 0 || pick >= len(options) || metric[options[pick]] != best {
		c.Violation("metric-strategy-not-maximal", map[string]interface{}{"case": caseN, "existing": fmt.Sprint(existing), "options": fmt.Sprint(options), "metric": fmt.Sprint(metric), "picked_index": pick, "maximal_metric": best,
			"why": "Choose called directly with options that overlap the existing parents"})
		return
	}
	// (b) shared memory
	heads := append(hash.Events{}, pool[:3+r.Intn(5)]...)
	k := 1 + r.Intn(2)
	want := append(hash.Events{}, heads[:k]...)
	all := append(hash.Events{}, heads...)
	var res hash.Events
	if p, _ := ev.Try(func() {
		res = ancestor.ChooseParents(heads[:k], heads, []ancestor.SearchStrategy{st, ancestor.NewRandomStrategy(rand.New(rand.NewSource(int64(caseN))))})
	}); p != nil {
		c.Violation("choose-parents-panics", map[string]interface{}{"case": caseN, "panic": fmt.Sprint(p), "call": "ChooseParents(heads[:k], heads, ...)"})
		return
	}
	seen := map[hash.Event]bool{}
	bad := ""
	for i, p := range res {
		if i < k && p != want[i] {
			bad = fmt.Sprintf("position %d is not the existing parent", i)
		}
		if seen[p] {
			bad = "a parent is repeated"
		}
		seen[p] = true
		ok := false
		for _, h := range all {
			if h == p {
				ok = true
			}
		}
		if !ok {
			bad = "a parent that was never offered"
		}
	}
	if len(res) < k {
		bad = "result shorter than the existing parents"
	}
	if bad != "" {
		cls := "existing-parents-not-first"
		if bad == "a parent is repeated" {
			cls = "parent-repeated"
		}
		c.Violation(cls, map[string]interface{}{"case": caseN, "heads": fmt.Sprint(all), "existing": fmt.Sprintf("heads[:%d]", k), "result": fmt.Sprint(res), "why": bad + " (existing parents and options share one array)"})
		return
	}
	c.Eval(1)
	c.Count("direct_choose_calls_and_shared_array_selections", 2)
}
