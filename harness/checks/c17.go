package checks

import (
	"fmt"
	"math/rand"
	"sync"
	"time"

	"github.com/Fantom-foundation/lachesis-base/gossip/basestream"
	"github.com/Fantom-foundation/lachesis-base/gossip/basestream/basestreamseeder"

	"verif/ev"
)

// C17 Stream seeder serves each session in order, once, within limits.
func init() { register("C17", "exploration", runC17) }

type c17loc int

func (l c17loc) Compare(b basestream.Locator) int {
	o := b.(c17loc)
	switch {
	case l < o:
		return -1
	case l > o:
		return 1
	}
	return 0
}
func (l c17loc) Inc() basestream.Locator { return l + 1 }

type c17payload struct{ items []int }

func c17itemSize(k int) uint64 { return uint64(10 + k%7*5) }

func (p *c17payload) Len() int { return len(p.items) }
func (p *c17payload) TotalSize() (s uint64) {
	for _, k := range p.items {
		s += c17itemSize(k)
	}
	return
}
func (p *c17payload) TotalMemSize() int { return int(p.TotalSize()) }

type c17resp struct {
	peer    string
	session uint32
	items   []int
	done    bool
	afterOp int // number of client operations issued when the response arrived
}

// model of one session lifetime as the property describes it
type c17life struct {
	start, stop int
	next        int // next item expected
	done        bool
	responses   int
}

type c17client struct {
	mu     sync.Mutex
	cond   *sync.Cond
	inbox  map[string][]c17resp // peer -> responses not yet consumed by the oracle
	misb   []string
	all    []c17resp
	gate   chan struct{} // when non-nil, SendChunk blocks on it
	maxPnd int64
	nOps   int
	s      *basestreamseeder.BaseSeeder
}

func (cl *c17client) peer(id string) basestreamseeder.Peer {
	return basestreamseeder.Peer{ID: id,
		SendChunk: func(r basestream.Response) error {
			if g := cl.gateCh(); g != nil {
				<-g
			}
			p := cl.s.VerifPendingResponsesSize()
			cl.mu.Lock()
			if p > cl.maxPnd {
				cl.maxPnd = p
			}
			rr := c17resp{peer: id, session: r.SessionID, items: append([]int{}, r.Payload.(*c17payload).items...), done: r.Done, afterOp: cl.nOps}
			cl.inbox[id] = append(cl.inbox[id], rr)
			cl.all = append(cl.all, rr)
			cl.cond.Broadcast()
			cl.mu.Unlock()
			return nil
		},
		Misbehaviour: func(err error) {
			cl.mu.Lock()
			cl.misb = append(cl.misb, id+": "+err.Error())
			cl.cond.Broadcast()
			cl.mu.Unlock()
		}}
}

func (cl *c17client) gateCh() chan struct{} {
	cl.mu.Lock()
	defer cl.mu.Unlock()
	return cl.gate
}

// take waits for the next response addressed to peer (any session); ok=false after the timeout.
func (cl *c17client) take(peer string, timeout time.Duration) (c17resp, bool) {
	deadline := time.Now().Add(timeout)
	cl.mu.Lock()
	defer cl.mu.Unlock()
	for len(cl.inbox[peer]) == 0 {
		if time.Now().After(deadline) {
			return c17resp{}, false
		}
		t := time.AfterFunc(50*time.Millisecond, func() { cl.mu.Lock(); cl.cond.Broadcast(); cl.mu.Unlock() })
		cl.cond.Wait()
		t.Stop()
	}
	r := cl.inbox[peer][0]
	cl.inbox[peer] = cl.inbox[peer][1:]
	return r, true
}

func runC17(c *ev.Ctx) {
	c.Rule = "items are the integers 0..N-1 (sizes 10..40), payloads accumulate with a pointer receiver. (A) protocol runs: 1-4 peers, sessions with random start/stop, requests with MaxChunks 0..cfg, item-count limits incl. 0 and size limits incl. 0, interleaved resumes (also of the OLDEST of three live sessions), new sessions while three are live (pruning), peer unregistration followed by 40 barrier round-trips through another peer and a request on an old session id, requests after done, selector mismatches. The client is synchronous: after each request it collects the responses and checks them before going on. " +
		"Oracle per session lifetime (ends at unregister or when the peer opens a NEW session while holding three): concatenated items are start, start+1, ... below stop, no gap, no repeat; each response has <= limit+1 items and stays below the size limit before its last item; at most MaxChunks responses per request, exactly MaxChunks unless a done response ends it; exactly one done, as last response, only when the stream reached min(stop, N); nothing after done. " +
		"(B) memory runs: SendChunk blocks on a gate while requests pile up; VerifPendingResponsesSize() sampled from outside and in callbacks must stay <= MaxPendingResponsesSize + largest response; after the gate opens every stream is still in order. (C) failing sends: a peer whose every SendChunk returns an error requests several times the limit; afterwards the pending-response accounting is back at zero and a healthy peer receives its whole session in order with one done. non-trivial = distinct protocol runs where a session was resumed >= 2 times while >= 2 other sessions of the peer were live"
	c.Assumptions = []string{"requests of one run are issued by one client goroutine, so the seeder processes them in issue order", "the order between an UnregisterPeer and later requests is forced by 40 barrier round-trips (each lost race has probability <= 1/2)", "a response not arriving within 20 s is 'missing'"}
	nA := c.Pick(600, 12000)
	c.Parallel(nA, 16, func(i int) { c17Protocol(c, c.Rand("proto", i), i) })
	nB := c.Pick(40, 600)
	c.Parallel(nB, 8, func(i int) { c17Memory(c, c.Rand("mem", i), i) })
	c.Parallel(c.Pick(60, 1200), 8, func(i int) { c17FailingSends(c, c.Rand("failsend", i), i) })
	nC := c.Pick(120, 2000)
	c.Parallel(nC, 8, func(i int) { c17Pipelined(c, c.Rand("pipe", i), i) })
}

func c17forEach(N int) func(start basestream.Locator, rType basestream.RequestType, onKey func(key basestream.Locator) bool, onAppended func(items basestream.Payload) bool) basestream.Payload {
	return func(start basestream.Locator, rType basestream.RequestType, onKey func(key basestream.Locator) bool, onAppended func(items basestream.Payload) bool) basestream.Payload {
		p := &c17payload{}
		for k := int(start.(c17loc)); k < N; k++ {
			if !onKey(c17loc(k)) {
				break
			}
			p.items = append(p.items, k)
			if !onAppended(p) {
				break
			}
		}
		return p
	}
}

func c17Protocol(c *ev.Ctx, r *rand.Rand, caseN int) {
	N := 20 + r.Intn(60)
	cfg := basestreamseeder.Config{SenderThreads: 1 + r.Intn(3), MaxSenderTasks: 64, MaxPendingResponsesSize: 1 << 30, MaxResponsePayloadNum: uint32(3 + r.Intn(10)), MaxResponsePayloadSize: uint64(60 + r.Intn(300)), MaxResponseChunks: uint32(2 + r.Intn(5))}
	cl := &c17client{inbox: map[string][]c17resp{}}
	cl.cond = sync.NewCond(&cl.mu)
	s := basestreamseeder.New(cfg, basestreamseeder.Callbacks{ForEachItem: c17forEach(N)})
	cl.s = s
	s.Start()
	stopped := false
	defer func() {
		if !stopped {
			s.Stop()
		}
	}()
	var log []string
	desc := func() map[string]interface{} {
		var all []string
		cl.mu.Lock()
		for _, rr := range cl.all {
			if rr.peer != "zz-barrier" && len(all) < 80 {
				all = append(all, fmt.Sprintf("%+v", rr))
			}
		}
		cl.mu.Unlock()
		return map[string]interface{}{"case": caseN, "items": N, "config": fmt.Sprintf("%+v", cfg), "ops": log, "all_responses_in_arrival_order": all}
	}
	peers := []string{"p0", "p1", "p2", "p3"}[:1+r.Intn(4)]
	gen := map[string]int{}        // suffix after unregistration: the same logical peer keeps its id (that is the point)
	live := map[string][]uint32{}  // peer -> live session ids in creation order
	lives := map[string]*c17life{} // peer/session -> lifetime model
	key := func(p string, sid uint32) string { return fmt.Sprintf("%s/%d", p, sid) }
	former := map[string][][3]int{} // sessions that were live (and had progressed) when their peer unregistered
	resumedWithOthers := 0
	resumes := map[string]int{}
	barrierN := uint32(1000)
	barrier := func(times int) bool {
		for k := 0; k < times; k++ {
			barrierN++
			err, perr := s.NotifyRequestReceived(cl.peer("zz-barrier"), basestream.Request{Session: basestream.Session{ID: barrierN, Start: c17loc(0), Stop: c17loc(1)}, MaxChunks: 1, MaxPayloadNum: 1, MaxPayloadSize: 1000})
			if err != nil || perr != nil {
				return false
			}
			if _, ok := cl.take("zz-barrier", 20*time.Second); !ok {
				return false
			}
		}
		return true
	}
	_ = gen
	for op := 0; op < 25+r.Intn(30); op++ {
		cl.mu.Lock()
		cl.nOps = len(log) + 1
		cl.mu.Unlock()
		p := peers[r.Intn(len(peers))]
		switch k := r.Intn(20); {
		case k < 1: // unregister
			log = append(log, "unregister "+p)
			// requests travel through another channel than unregistrations: drain the earlier requests first
			// (one barrier round-trip through the request channel), otherwise the unregistration may overtake them
			if !barrier(1) {
				c.Violation("response-missing", desc())
				return
			}
			if err := s.UnregisterPeer(p); err != nil {
				m := desc()
				m["err"] = err.Error()
				c.Violation("unregister-fails", m)
				return
			}
			if !barrier(40) {
				c.Violation("response-missing", desc())
				return
			}
			for _, sid := range live[p] {
				if lf := lives[key(p, sid)]; lf != nil && lf.next > lf.start {
					former[p] = append(former[p], [3]int{int(sid), lf.start, lf.stop})
				}
				delete(lives, key(p, sid))
			}
			live[p] = nil
		default:
			// choose a session: resume a live one (prefer the oldest when three are live), or a new id
			var sid uint32
			isNew := false
			if len(live[p]) > 0 && r.Intn(4) > 0 {
				if len(live[p]) == 3 && r.Intn(2) == 0 {
					sid = live[p][0]
				} else {
					sid = live[p][r.Intn(len(live[p]))]
				}
			} else {
				sid = uint32(1 + r.Intn(1000000))
				for lives[key(p, sid)] != nil {
					sid++
				}
				isNew = true
			}
			lf := lives[key(p, sid)]
			if isNew {
				start := r.Intn(N)
				stop := start + r.Intn(N-start+10)
				if r.Intn(5) == 0 {
					stop = start
				}
				if len(former[p]) > 0 && r.Intn(2) == 0 {
					// the id of a session that lived before the peer unregistered: it must start afresh
					f := former[p][0]
					former[p] = former[p][1:]
					if lives[key(p, uint32(f[0]))] == nil {
						sid, start, stop = uint32(f[0]), f[1], f[2]
						c.Count("old_session_ids_reused_after_unregister", 1)
					}
				}
				lf = &c17life{start: start, stop: stop, next: start}
			}
			req := basestream.Request{Session: basestream.Session{ID: sid, Start: c17loc(lf.start), Stop: c17loc(lf.stop)},
				MaxChunks: uint32(r.Intn(int(cfg.MaxResponseChunks) + 1)), MaxPayloadNum: uint32(r.Intn(int(cfg.MaxResponsePayloadNum) + 4)), MaxPayloadSize: uint64(r.Intn(int(cfg.MaxResponsePayloadSize) + 100))}
			if !isNew && r.Intn(4) == 0 {
				// a resuming request that names another stop: the session keeps the stop it was opened with
				other := lf.stop + 1 + r.Intn(6)
				if r.Intn(2) == 0 && lf.stop > lf.start {
					other = lf.start + r.Intn(lf.stop-lf.start)
				}
				req.Session.Stop = c17loc(other)
				c.Count("resumes_naming_another_stop", 1)
			}
			if r.Intn(6) == 0 {
				req.MaxPayloadNum = 0
			}
			if r.Intn(8) == 0 {
				req.MaxPayloadSize = 0
			}
			mismatch := !isNew && r.Intn(15) == 0
			if mismatch {
				req.Session.Start = c17loc(lf.start + 1)
			}
			if isNew && req.MaxChunks == 0 {
				// a session only comes into existence with its first chunk; "opening" one with zero chunks is
				// left out so that "holding three sessions" is unambiguous
				req.MaxChunks = 1
			}
			tooMany := !isNew && r.Intn(25) == 0
			if tooMany {
				req.MaxChunks = cfg.MaxResponseChunks + 1 + uint32(r.Intn(3))
			}
			log = append(log, fmt.Sprintf("request %s session=%d new=%v start=%d stop=%d chunks=%d num=%d size=%d (model next=%d done=%v)", p, sid, isNew, int(req.Session.Start.(c17loc)), lf.stop, req.MaxChunks, req.MaxPayloadNum, req.MaxPayloadSize, lf.next, lf.done))
			err, perr := s.NotifyRequestReceived(cl.peer(p), req)
			if tooMany {
				if perr == nil {
					c.Violation("too-many-chunks-not-refused", desc())
					return
				}
				continue
			}
			if err != nil || perr != nil {
				m := desc()
				m["err"], m["peer_err"] = fmt.Sprint(err), fmt.Sprint(perr)
				c.Violation("request-refused", m)
				return
			}
			// model: lifetime bookkeeping as the property states it
			if isNew {
				if len(live[p]) >= 3 {
					old := live[p][0]
					live[p] = live[p][1:]
					delete(lives, key(p, old))
					c.Count("sessions_pruned_by_a_new_session", 1)
				}
				live[p] = append(live[p], sid)
				lives[key(p, sid)] = lf
			} else {
				resumes[key(p, sid)]++
				if resumes[key(p, sid)] >= 2 && len(live[p]) >= 3 {
					resumedWithOthers++
				}
				if len(live[p]) == 3 && live[p][0] == sid {
					c.Count("resumes_of_the_oldest_of_three", 1)
				}
			}
			if mismatch {
				// expect a Misbehaviour report and no responses
				if !barrier(1) {
					c.Violation("response-missing", desc())
					return
				}
				cl.mu.Lock()
				nm := len(cl.misb)
				cl.mu.Unlock()
				if nm == 0 {
					c.Violation("selector-mismatch-not-reported", desc())
					return
				}
				continue
			}
			numLimit := req.MaxPayloadNum
			if numLimit > cfg.MaxResponsePayloadNum {
				numLimit = cfg.MaxResponsePayloadNum
			}
			sizeLimit := req.MaxPayloadSize
			if sizeLimit > cfg.MaxResponsePayloadSize {
				sizeLimit = cfg.MaxResponsePayloadSize
			}
			end := lf.stop
			if N < end {
				end = N
			}
			// collect up to MaxChunks responses (fewer only if a done one arrives or the session is done already)
			for got := uint32(0); got < req.MaxChunks && !lf.done; got++ {
				rsp, ok := cl.take(p, 20*time.Second)
				if !ok {
					m := desc()
					m["waiting_for_chunk"] = got
					c.Violation("response-missing", m)
					return
				}
				c.Count("responses_checked", 1)
				bad := ""
				switch {
				case rsp.session != sid:
					bad = fmt.Sprintf("response for session %d while only session %d has outstanding chunks", rsp.session, sid)
				default:
					for j, it := range rsp.items {
						if it != lf.next+j {
							if it == lf.start && lf.next != lf.start {
								bad = fmt.Sprintf("stream restarted from the session start %d (expected item %d): the session was not resumable", lf.start, lf.next+j)
							} else {
								bad = fmt.Sprintf("item %d where %d was expected (gap or repeat)", it, lf.next+j)
							}
							break
						}
						if it >= end {
							bad = fmt.Sprintf("item %d at or beyond the stop %d", it, end)
							break
						}
					}
				}
				if bad == "" {
					n := len(rsp.items)
					if uint32(n) > numLimit+1 {
						bad = fmt.Sprintf("%d items, limit %d", n, numLimit)
					}
					if n > 1 {
						var sz uint64
						for _, it := range rsp.items[:n-1] {
							sz += c17itemSize(it)
						}
						if sz >= sizeLimit {
							bad = fmt.Sprintf("size limit %d already reached before the last item (size without it %d)", sizeLimit, sz)
						}
						if uint32(n-1) >= numLimit {
							bad = fmt.Sprintf("item-count limit %d already reached before the last item (%d items)", numLimit, n)
						}
					}
					lf.next += n
					if rsp.done && lf.next < end {
						bad = fmt.Sprintf("done although the stream stopped at %d, end is %d", lf.next, end)
					}
					if rsp.done {
						lf.done = true
					}
				}
				if bad != "" {
					m := desc()
					m["response"], m["why"] = fmt.Sprintf("%+v", rsp), bad
					cls := "session-stream-broken"
					if len(live[p]) == 3 && live[p][0] == sid && !isNew {
						cls = "resumed-oldest-session-restarted"
					}
					c.Violation(cls, m)
					return
				}
			}
		}
	}
	// nothing unexpected may be left: drain with a barrier, stop, and look at the full log
	if !barrier(1) {
		c.Violation("response-missing", desc())
		return
	}
	s.Stop()
	stopped = true
	finalDesc := desc()
	cl.mu.Lock()
	defer cl.mu.Unlock()
	for p, in := range cl.inbox {
		if p != "zz-barrier" && len(in) > 0 {
			m := finalDesc
			m["unexpected"] = fmt.Sprintf("%+v", in)
			c.Violation("unrequested-response-sent", m)
			return
		}
	}
	c.Eval(1)
	if resumedWithOthers > 0 {
		c.Nontrivial(ev.Hash("c17", caseN, len(cl.all)))
	}
	if c.WantSample() {
		c.Sample(finalDesc)
	}
}

func c17Memory(c *ev.Ctx, r *rand.Rand, caseN int) {
	N := 400
	limit := int64(300 + r.Intn(600))
	cfg := basestreamseeder.Config{SenderThreads: 1 + r.Intn(3), MaxSenderTasks: 256, MaxPendingResponsesSize: limit, MaxResponsePayloadNum: uint32(2 + r.Intn(6)), MaxResponsePayloadSize: 200, MaxResponseChunks: 8}
	largest := int64(cfg.MaxResponsePayloadNum+1) * 40
	cl := &c17client{inbox: map[string][]c17resp{}, gate: make(chan struct{})}
	cl.cond = sync.NewCond(&cl.mu)
	s := basestreamseeder.New(cfg, basestreamseeder.Callbacks{ForEachItem: c17forEach(N)})
	cl.s = s
	s.Start()
	defer s.Stop()
	type sess struct {
		peer        string
		id          uint32
		start, stop int
	}
	var sessions []sess
	for k := 0; k < 6; k++ {
		st := r.Intn(100)
		sessions = append(sessions, sess{fmt.Sprintf("m%d", k%3), uint32(10 + k), st, st + 40 + r.Intn(100)})
	}
	// requests are issued from a separate goroutine: the reader loop blocks once the limit is reached
	issued := make(chan struct{})
	go func() {
		defer close(issued)
		for round := 0; round < 4; round++ {
			for _, ss := range sessions {
				_, _ = s.NotifyRequestReceived(cl.peer(ss.peer), basestream.Request{Session: basestream.Session{ID: ss.id, Start: c17loc(ss.start), Stop: c17loc(ss.stop)}, MaxChunks: 8, MaxPayloadNum: cfg.MaxResponsePayloadNum, MaxPayloadSize: 200})
			}
		}
	}()
	var maxSeen int64
	polls := 60
	if caseN%20 == 0 {
		polls = 2600 // a peer that does not read for 1.3 s: the limit must hold however long the stall lasts
		c.Count("memory_runs_with_a_stall_over_1s", 1)
	}
	for k := 0; k < polls; k++ {
		time.Sleep(500 * time.Microsecond)
		if p := s.VerifPendingResponsesSize(); p > maxSeen {
			maxSeen = p
		}
	}
	cl.mu.Lock()
	g := cl.gate
	cl.gate = nil
	cl.mu.Unlock()
	close(g)
	select {
	case <-issued:
	case <-time.After(30 * time.Second):
		c.Violation("seeder-stuck-after-the-senders-were-unblocked", map[string]interface{}{"case": caseN})
		return
	}
	// barrier through another peer, then examine
	_, _ = s.NotifyRequestReceived(cl.peer("zz-barrier"), basestream.Request{Session: basestream.Session{ID: 1, Start: c17loc(0), Stop: c17loc(1)}, MaxChunks: 1, MaxPayloadNum: 1, MaxPayloadSize: 100})
	if _, ok := cl.take("zz-barrier", 30*time.Second); !ok {
		c.Violation("response-missing", map[string]interface{}{"case": caseN, "phase": "memory run barrier"})
		return
	}
	time.Sleep(5 * time.Millisecond)
	cl.mu.Lock()
	defer cl.mu.Unlock()
	if cl.maxPnd > maxSeen {
		maxSeen = cl.maxPnd
	}
	c.Eval(1)
	c.Count("memory_runs", 1)
	c.Max("max_pending_response_bytes_observed", maxSeen)
	if maxSeen > limit+largest {
		c.Violation("pending-response-memory-exceeds-limit", map[string]interface{}{"case": caseN, "limit": limit, "largest_response": largest, "observed": maxSeen})
		return
	}
	if maxSeen >= limit {
		c.Count("memory_runs_that_reached_the_limit", 1)
	}
	next := map[string]int{}
	for _, rr := range cl.all {
		if rr.peer == "zz-barrier" {
			continue
		}
		k := fmt.Sprintf("%s/%d", rr.peer, rr.session)
		var ss sess
		for _, x := range sessions {
			if x.peer == rr.peer && x.id == rr.session {
				ss = x
			}
		}
		if _, ok := next[k]; !ok {
			next[k] = ss.start
		}
		for _, it := range rr.items {
			if it != next[k] {
				c.Violation("session-stream-broken", map[string]interface{}{"case": caseN, "phase": "memory run", "session": k, "item": it, "expected": next[k]})
				return
			}
			next[k]++
		}
	}
	c.Nontrivial(ev.Hash("c17mem", caseN, maxSeen))
}

// c17Pipelined: requests for the same sessions are issued back to back without waiting while the senders are
// slow (random sleeps in SendChunk): the responses of one session must still arrive in stream order.
func c17Pipelined(c *ev.Ctx, r *rand.Rand, caseN int) {
	N := 300
	cfg := basestreamseeder.Config{SenderThreads: 2 + r.Intn(3), MaxSenderTasks: 256, MaxPendingResponsesSize: 1 << 30, MaxResponsePayloadNum: 3, MaxResponsePayloadSize: 1000, MaxResponseChunks: 4}
	var mu sync.Mutex
	next := map[uint32]int{}
	got := map[uint32]int{}
	bad := ""
	var s *basestreamseeder.BaseSeeder
	slow := rand.New(rand.NewSource(r.Int63()))
	peer := basestreamseeder.Peer{ID: "pipe", SendChunk: func(rsp basestream.Response) error {
		mu.Lock()
		d := time.Duration(slow.Intn(200)) * time.Microsecond
		mu.Unlock()
		time.Sleep(d)
		mu.Lock()
		defer mu.Unlock()
		for _, it := range rsp.Payload.(*c17payload).items {
			if it != next[rsp.SessionID] && bad == "" {
				bad = fmt.Sprintf("session %d: item %d arrived where %d was expected (responses of one session overtook each other)", rsp.SessionID, it, next[rsp.SessionID])
			}
			next[rsp.SessionID] = it + 1
		}
		got[rsp.SessionID]++
		return nil
	}, Misbehaviour: func(error) {}}
	s = basestreamseeder.New(cfg, basestreamseeder.Callbacks{ForEachItem: c17forEach(N)})
	s.Start()
	starts := map[uint32]int{1: r.Intn(50), 2: 50 + r.Intn(50), 3: 100 + r.Intn(50)}
	for sid, st := range starts {
		next[sid] = st
	}
	want := map[uint32]int{}
	for round := 0; round < 6; round++ {
		for sid, st := range starts {
			_, _ = s.NotifyRequestReceived(peer, basestream.Request{Session: basestream.Session{ID: sid, Start: c17loc(st), Stop: c17loc(N)}, MaxChunks: 2, MaxPayloadNum: 3, MaxPayloadSize: 1000})
			want[sid] += 2
		}
	}
	deadline := time.Now().Add(30 * time.Second)
	for {
		mu.Lock()
		done := true
		for sid, n := range want {
			if got[sid] < n {
				done = false
			}
		}
		mu.Unlock()
		if done || time.Now().After(deadline) {
			break
		}
		time.Sleep(200 * time.Microsecond)
	}
	s.Stop()
	mu.Lock()
	defer mu.Unlock()
	c.Eval(1)
	c.Count("pipelined_runs", 1)
	if bad != "" {
		c.Violation("session-responses-out-of-order", map[string]interface{}{"case": caseN, "sender_threads": cfg.SenderThreads, "why": bad})
		return
	}
	for sid, n := range want {
		if got[sid] != n {
			c.Violation("response-missing", map[string]interface{}{"case": caseN, "phase": "pipelined", "session": sid, "got": got[sid], "want": n})
			return
		}
	}
	c.Nontrivial(ev.Hash("pipe", caseN, cfg.SenderThreads))
}
