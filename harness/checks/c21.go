package checks

import (
	"fmt"
	"math"
	"math/big"
	"time"

	"github.com/Fantom-foundation/lachesis-base/emitter/doublesign"

	"verif/ev"
)

// C21 Double-sign guard never permits emission too early. Exact oracle in big-integer nanoseconds.
func init() { register("C21", "exploration", runC21) }

func c21ns(t time.Time) *big.Int {
	x := new(big.Int).Mul(big.NewInt(t.Unix()), big.NewInt(1e9))
	return x.Add(x, big.NewInt(int64(t.Nanosecond())))
}

func runC21(c *ev.Ctx) {
	c.Rule = "status records whose five guarded timestamps (last connected, P2P synced, became validator, external self-event created / detected) are drawn from {zero time (also as the zero instant carrying a location, which is not the zero struct), 1970, now-{0,1ns,th-1,th,th+1}, now+{1ns,th}, +-100y, +-292y+-1s, +-300y, +-10000y} relative to several 'now' values, thresholds from {0,1ns,1s,1h,100y,MaxInt64-1,MaxInt64,-1ns,-1s,-100y,MinInt64+1,MinInt64} (a negative threshold admits instants up to that far in the future), peers in {0,1}; " +
		"quick: each field swept over the full value list with the others valid, plus seeded random combinations; thorough: additionally all pairs of fields swept jointly. Oracle (big integers): err==nil <=> peers>0 and P2P synced is set and every timestamp is at least the threshold before now; " +
		"for a time-based refusal the wait is > 0 and equals min(max over the fields of (threshold - elapsed), MaxInt64); DetectParallelInstance <=> created is not before startup and now - created < threshold. " +
		"non-trivial = distinct records in which at least one field is exactly at threshold-1ns/threshold/threshold+1ns or beyond +-292 years"
	c.Assumptions = []string{"elapsed time is the exact difference of the two instants, not time.Duration's saturated value"}
	maxD := big.NewInt(math.MaxInt64)
	ths := []time.Duration{0, 1, time.Second, time.Hour, 100 * 365 * 24 * time.Hour, math.MaxInt64 - 1, math.MaxInt64, -1, -time.Second, -100 * 365 * 24 * time.Hour, math.MinInt64 + 1, math.MinInt64}
	nows := []time.Time{time.Unix(1700000000, 123456789), time.Unix(0, 0), time.Unix(4102444800, 999999999), {}, time.Time{}.Add(30 * time.Minute), time.Time{}.Add(1)}
	year := int64(365 * 24 * 3600)
	cands := func(now time.Time, th time.Duration) []time.Time {
		// the zero instant also in forms that are not the zero struct: with a location attached
		out := []time.Time{{}, time.Unix(0, 0), now, now.Add(-1), now.Add(1), time.Time{}.In(time.FixedZone("east", 3600)), time.Unix(-62135596800, 0)}
		if th != 0 && th < math.MaxInt64/2 && th > math.MinInt64/2 {
			out = append(out, now.Add(-th+1), now.Add(-th), now.Add(-th-1), now.Add(th), now.Add(-2*th))
		}
		for _, y := range []int64{100, 292, 293, 300, 10000} {
			for _, d := range []int64{-1, 0, 1} {
				out = append(out, time.Unix(now.Unix()+y*year+d, 0), time.Unix(now.Unix()-y*year+d, 0))
			}
		}
		return out
	}
	type fields [5]time.Time // LastConnected, P2PSynced, BecameValidator, ExtCreated, ExtDetected
	eval := func(now time.Time, th time.Duration, peers int, f fields, startup time.Time) {
		s := doublesign.SyncStatus{PeersNum: peers, Now: now, Startup: startup, LastConnected: f[0], P2PSynced: f[1], BecameValidator: f[2], ExternalSelfEventCreated: f[3], ExternalSelfEventDetected: f[4]}
		var wait time.Duration
		var err error
		if p, _ := ev.Try(func() { wait, err = doublesign.SyncedToEmit(s, th) }); p != nil {
			c.Violation("synced-to-emit-panics", map[string]interface{}{"status": fmt.Sprintf("%+v", s), "threshold": th, "panic": fmt.Sprint(p)})
			return
		}
		c.Eval(1)
		thB := big.NewInt(int64(th))
		nowNs := c21ns(now)
		maxRemain := new(big.Int)
		timeOK := true
		edge := false
		for _, t := range f {
			elapsed := new(big.Int).Sub(nowNs, c21ns(t))
			remain := new(big.Int).Sub(thB, elapsed)
			if remain.Sign() > 0 {
				timeOK = false
				if remain.Cmp(maxRemain) > 0 {
					maxRemain = remain
				}
			}
			if d := new(big.Int).Abs(remain); d.Cmp(big.NewInt(1)) <= 0 || new(big.Int).Abs(elapsed).Cmp(maxD) > 0 {
				edge = true
			}
		}
		// a guarded instant so far in the future that the elapsed time saturates at the smallest duration
		far := false
		for _, t := range f {
			if new(big.Int).Sub(nowNs, c21ns(t)).Cmp(big.NewInt(math.MinInt64)) < 0 {
				far = true
			}
		}
		desc := func() map[string]interface{} {
			return map[string]interface{}{"now": now.String(), "threshold_ns": int64(th), "peers": peers, "last_connected": f[0].String(), "p2p_synced": f[1].String(), "became_validator": f[2].String(),
				"ext_created": f[3].String(), "ext_detected": f[4].String(), "returned_wait_ns": int64(wait), "returned_err": fmt.Sprint(err)}
		}
		permitted := peers > 0 && !f[1].IsZero() && timeOK
		if (err == nil) != permitted {
			m := desc()
			m["oracle_permitted"] = permitted
			cls := "emission-permitted-too-early"
			if err != nil {
				cls = "emission-refused-although-all-conditions-hold"
			}
			// specific fingerprint of the known overflow shape: a timestamp so far in the future that the elapsed time saturates
			if err == nil && far {
				cls = "emission-permitted-when-timestamp-beyond-292y-in-future"
			}
			if err == nil && far && th == math.MinInt64 {
				// listed finding: the saturated elapsed time equals the threshold, so the instant is not counted as too recent
				cls = "threshold-min-duration-with-instant-beyond-292y-in-future"
			}
			c.Violation(cls, m)
			return
		}
		if err != nil && peers > 0 && !f[1].IsZero() {
			want := maxRemain
			if want.Cmp(maxD) > 0 {
				want = maxD
			}
			if wait <= 0 || big.NewInt(int64(wait)).Cmp(want) != 0 {
				m := desc()
				m["oracle_wait_ns"] = want.String()
				cls := "wait-not-the-longest-remaining-time"
				if maxRemain.Cmp(maxD) > 0 {
					cls = "wait-not-capped-at-max-duration"
				}
				if th < 0 && far && wait > 0 && big.NewInt(int64(wait)).Cmp(want) < 0 {
					// listed finding: remaining time computed from the saturated elapsed time
					cls = "negative-threshold-with-instant-beyond-292y-in-future-wait-too-short"
				}
				c.Violation(cls, m)
				return
			}
			c.Count("time_based_refusals_with_exact_wait", 1)
		}
		// parallel instance heuristic
		var par bool
		if p, _ := ev.Try(func() { par = doublesign.DetectParallelInstance(s, th) }); p != nil {
			c.Violation("detect-parallel-panics", desc())
			return
		}
		el := new(big.Int).Sub(nowNs, c21ns(f[3]))
		wantPar := !f[3].Before(startup) && el.Cmp(thB) < 0
		if par != wantPar {
			m := desc()
			m["startup"], m["detect_parallel"], m["oracle"] = startup.String(), par, wantPar
			cls := "parallel-instance-detection-wrong"
			if th == math.MinInt64 && !par && el.Cmp(big.NewInt(math.MinInt64)) < 0 {
				cls = "threshold-min-duration-with-instant-beyond-292y-in-future"
			}
			c.Violation(cls, m)
			return
		}
		if th < 0 {
			c.Count("records_with_negative_threshold", 1)
			if par {
				c.Count("parallel_instances_reported_under_negative_threshold", 1)
			}
			if err != nil && peers > 0 && !f[1].IsZero() {
				c.Count("time_based_refusals_under_negative_threshold", 1)
			}
		}
		if edge {
			c.Nontrivial(ev.Hash(now.UnixNano(), int64(th), peers, f[0].UnixNano(), f[1].UnixNano(), f[2].UnixNano(), f[3].UnixNano(), f[4].UnixNano(), f[0].Unix(), f[3].Unix()))
		}
		if edge && c.WantSample() {
			c.Sample(desc())
		}
	}
	type job struct {
		now time.Time
		th  time.Duration
	}
	var jobs []job
	for _, now := range nows {
		for _, th := range ths {
			jobs = append(jobs, job{now, th})
		}
	}
	c.Parallel(len(jobs), 0, func(ji int) {
		j := jobs[ji]
		r := c.Rand("job", ji)
		cs := cands(j.now, j.th)
		valid := time.Unix(j.now.Unix()-400*year, 0) // far enough in the past for every threshold (<= ~292y)
		base := fields{valid, valid, valid, valid, valid}
		for _, peers := range []int{0, 1, 3} {
			// each field alone
			for fi := 0; fi < 5; fi++ {
				for _, t := range cs {
					f := base
					f[fi] = t
					eval(j.now, j.th, peers, f, cs[r.Intn(len(cs))])
				}
			}
			// pairs of fields jointly (thorough), random combos (both)
			if !c.Quick() {
				for a := 0; a < 5; a++ {
					for b := a + 1; b < 5; b++ {
						for _, ta := range cs {
							for _, tb := range cs {
								f := base
								f[a], f[b] = ta, tb
								eval(j.now, j.th, peers, f, tb)
							}
						}
					}
				}
			}
			for k := 0; k < c.Pick(3000, 100000); k++ {
				var f fields
				for fi := range f {
					if r.Intn(3) == 0 {
						f[fi] = valid
					} else {
						f[fi] = cs[r.Intn(len(cs))]
					}
				}
				eval(j.now, j.th, peers, f, cs[r.Intn(len(cs))])
			}
		}
	})
}
