package checks

import (
	"bytes"
	"fmt"
	"math/rand"

	"github.com/Fantom-foundation/lachesis-base/kvdb"
	"github.com/Fantom-foundation/lachesis-base/kvdb/flushable"
	"github.com/Fantom-foundation/lachesis-base/kvdb/memorydb"

	"verif/ev"
	"verif/kvm"
)

// C22 Flushable store is the underlying store overlaid with unflushed writes.
func init() { register("C22", "exploration", runC22) }

type c22held struct {
	it            kvdb.Iterator
	prefix, start []byte
	atCreation    kvm.Model
	hist          map[string][][]byte // values a key had since creation (nil entry = absent), incl. the creation-time one
	touched       map[string]bool
	yielded       map[string]bool
	last          []byte
	n             int
}

type c22world struct {
	fl      kvdb.FlushableKVStore
	under   func() kvdb.Store // raw underlying (nil before a lazy store was produced)
	U, V    kvm.Model
	dirty   map[string]bool
	snaps   []kvdb.Snapshot
	snapM   []kvm.Model
	held    []*c22held
	batch   kvdb.Batch
	pending []kvBatchOp
	log     []string
	stats   map[string]int
	touched []string
	// lazy store over a database that already holds data: until the database is produced (InitUnderlyingDb or the
	// first Flush) the store reads as an empty underlying store plus the overlay; afterwards as pendingX plus the overlay
	pendingX  kvm.Model
	initUnder func() error
}

func (w *c22world) materialise() {
	x := w.pendingX
	w.pendingX, w.initUnder = nil, nil
	nv := x.Copy()
	for k := range w.dirty {
		if v, ok := w.V[k]; ok {
			nv[k] = v
		} else {
			delete(nv, k)
		}
	}
	for k, v := range x {
		if !w.dirty[k] {
			w.noteWrite(k, v, true) // iterators created earlier may or may not show the database's keys
		}
		w.touched = append(w.touched, k)
	}
	w.U, w.V = x.Copy(), nv
	w.stats["lazy_database_with_data_produced"]++
}

func (w *c22world) noteWrite(k string, v []byte, present bool) {
	for _, h := range w.held {
		if _, ok := h.hist[k]; !ok {
			if cv, was := h.atCreation[k]; was {
				h.hist[k] = [][]byte{cv}
			} else {
				h.hist[k] = [][]byte{nil}
			}
		}
		if present {
			h.hist[k] = append(h.hist[k], append([]byte{}, v...))
		} else {
			h.hist[k] = append(h.hist[k], nil)
		}
		h.touched[k] = true
	}
}

func (w *c22world) put(k, v []byte) {
	w.V[string(k)] = append([]byte{}, v...)
	w.dirty[string(k)] = true
	w.touched = append(w.touched, string(k))
	w.noteWrite(string(k), v, true)
}
func (w *c22world) del(k []byte) {
	delete(w.V, string(k))
	w.dirty[string(k)] = true
	w.touched = append(w.touched, string(k))
	w.noteWrite(string(k), nil, false)
}

func (w *c22world) someKey(r *rand.Rand) []byte {
	if len(w.touched) > 0 && r.Intn(3) > 0 {
		return []byte(w.touched[r.Intn(len(w.touched))])
	}
	return kvm.Key(r, 0, 4)
}

func (w *c22world) step(r *rand.Rand) string {
	if w.initUnder != nil && r.Intn(12) == 0 {
		w.log = append(w.log, "InitUnderlyingDb")
		if err := w.initUnder(); err != nil {
			return "InitUnderlyingDb error " + err.Error()
		}
		w.materialise()
		w.stats["lazy_produced_by_InitUnderlyingDb"]++
		return w.afterOp(r)
	}
	c := r.Intn(100)
	switch {
	case c < 22:
		k, v := w.someKey(r), kvm.Key(r, 0, 3)
		w.log = append(w.log, fmt.Sprintf("put %x=%x", k, v))
		kk, vv := append([]byte{}, k...), append([]byte{}, v...)
		if err := w.fl.Put(kk, vv); err != nil {
			return "Put error " + err.Error()
		}
		scribble(kk)
		scribble(vv)
		w.put(k, v)
	case c < 32:
		k := w.someKey(r)
		w.log = append(w.log, fmt.Sprintf("delete %x", k))
		if err := w.fl.Delete(append([]byte{}, k...)); err != nil {
			return "Delete error " + err.Error()
		}
		if _, inU := w.U[string(k)]; inU {
			w.stats["tombstone_over_underlying_key"]++
		}
		w.del(k)
	case c < 40: // batch ops
		if w.batch == nil {
			w.batch = w.fl.NewBatch()
			w.pending = nil
		}
		k, v := w.someKey(r), kvm.Key(r, 0, 3)
		dl := r.Intn(3) == 0
		w.log = append(w.log, fmt.Sprintf("batch del=%v %x=%x", dl, k, v))
		kb, vb := append([]byte{}, k...), append([]byte{}, v...)
		if dl {
			w.batch.Delete(kb)
			w.pending = append(w.pending, kvBatchOp{true, k, nil})
		} else {
			w.batch.Put(kb, vb)
			w.pending = append(w.pending, kvBatchOp{false, k, v})
		}
		// the caller's buffers are reused right after queueing, long before Write
		scribble(kb)
		scribble(vb)
	case c < 45:
		if w.batch == nil {
			return ""
		}
		w.log = append(w.log, "batch write")
		if err := w.batch.Write(); err != nil {
			return "batch Write error " + err.Error()
		}
		for _, o := range w.pending {
			if o.del {
				w.del(o.k)
			} else {
				w.put(o.k, o.v)
			}
		}
		if r.Intn(4) == 0 {
			// no Reset: the batch keeps its operations, a later Write applies them again (over whatever happened meanwhile)
			w.log[len(w.log)-1] = "batch write (batch kept without Reset)"
			w.stats["batch_written_and_kept"]++
		} else {
			w.batch.Reset()
			w.batch, w.pending = nil, nil
		}
		w.stats["batch_write"]++
	case c < 53: // flush
		w.log = append(w.log, "flush")
		if err := w.fl.Flush(); err != nil {
			return "Flush error " + err.Error()
		}
		if w.pendingX != nil {
			w.materialise() // the first Flush produced the database
		}
		w.U = w.V.Copy()
		w.dirty = map[string]bool{}
		if u := w.under(); u != nil {
			raw, err := kvm.Dump(u)
			if err != nil {
				return "underlying dump error " + err.Error()
			}
			if !raw.Equal(w.U) {
				return fmt.Sprintf("after Flush the underlying store differs from the view: underlying [%s] view [%s]", kvm.FmtPairs(raw.Iter(nil, nil)), kvm.FmtPairs(w.U.Iter(nil, nil)))
			}
		}
		w.stats["flush"]++
	case c < 59: // drop not flushed
		w.log = append(w.log, "dropNotFlushed")
		w.fl.DropNotFlushed()
		for k := range w.dirty {
			uv, present := w.U[k]
			w.noteWrite(k, uv, present)
		}
		w.V = w.U.Copy()
		w.dirty = map[string]bool{}
		w.stats["drop"]++
	case c < 63: // snapshot
		if len(w.snaps) >= 3 {
			return ""
		}
		w.log = append(w.log, "snapshot")
		s, err := w.fl.GetSnapshot()
		if err != nil {
			return "GetSnapshot error " + err.Error()
		}
		w.snaps = append(w.snaps, s)
		w.snapM = append(w.snapM, w.V.Copy())
	case c < 72: // read snapshot
		if len(w.snaps) == 0 {
			return ""
		}
		i := r.Intn(len(w.snaps))
		if r.Intn(2) == 0 {
			k := w.someKey(r)
			w.log = append(w.log, fmt.Sprintf("snapshot[%d] get %x", i, k))
			if why := kvm.CheckPoint(w.snaps[i], w.snapM[i], k); why != "" {
				return fmt.Sprintf("snapshot %d: %s", i, why)
			}
		} else {
			p, s := rPrefixStart(r)
			w.log = append(w.log, fmt.Sprintf("snapshot[%d] iterate prefix=%x start=%x", i, p, s))
			got, err := kvm.ReadAll(w.snaps[i], p, s, -1)
			if err != nil {
				return "snapshot iterator error " + err.Error()
			}
			if why := kvm.SamePairs(got, w.snapM[i].Iter(p, s)); why != "" {
				return fmt.Sprintf("snapshot %d iterate(prefix=%x,start=%x): %s", i, p, s, why)
			}
		}
		if !w.snapM[i].Equal(w.V) {
			w.stats["snapshot_read_after_divergence"]++
		}
	case c < 75:
		if len(w.snaps) == 0 {
			return ""
		}
		i := r.Intn(len(w.snaps))
		w.log = append(w.log, fmt.Sprintf("snapshot[%d] release", i))
		w.snaps[i].Release()
		w.snaps = append(w.snaps[:i:i], w.snaps[i+1:]...)
		w.snapM = append(w.snapM[:i:i], w.snapM[i+1:]...)
	case c < 80: // create a held iterator
		if len(w.held) >= 2 {
			return ""
		}
		p, s := rPrefixStart(r)
		w.log = append(w.log, fmt.Sprintf("hold iterator prefix=%x start=%x", p, s))
		w.held = append(w.held, &c22held{it: w.fl.NewIterator(p, s), prefix: p, start: s, atCreation: w.V.Copy(), hist: map[string][][]byte{}, touched: map[string]bool{}, yielded: map[string]bool{}})
	case c < 90: // advance a held iterator
		if len(w.held) == 0 {
			return ""
		}
		i := r.Intn(len(w.held))
		h := w.held[i]
		steps := 1 + r.Intn(4)
		w.log = append(w.log, fmt.Sprintf("held[%d] next x%d", i, steps))
		lo := append(append([]byte{}, h.prefix...), h.start...)
		for s := 0; s < steps; s++ {
			if !h.it.Next() {
				if err := h.it.Error(); err != nil {
					return "held iterator error " + err.Error()
				}
				// exhausted: untouched keys of the creation-time view must all have been yielded
				for _, p := range h.atCreation.Iter(h.prefix, h.start) {
					if !h.touched[string(p.K)] && !h.yielded[string(p.K)] {
						return fmt.Sprintf("iterator created before later writes lost the untouched key %x (prefix=%x start=%x)", p.K, h.prefix, h.start)
					}
				}
				h.it.Release()
				w.held = append(w.held[:i:i], w.held[i+1:]...)
				w.stats["held_iterators_exhausted"]++
				return ""
			}
			k, v := append([]byte{}, h.it.Key()...), append([]byte{}, h.it.Value()...)
			if !bytes.HasPrefix(k, h.prefix) || bytes.Compare(k, lo) < 0 {
				return fmt.Sprintf("held iterator yielded %x outside prefix=%x start=%x", k, h.prefix, h.start)
			}
			if h.n > 0 && bytes.Compare(k, h.last) <= 0 {
				return fmt.Sprintf("held iterator not strictly ascending: %x after %x", k, h.last)
			}
			ok := false
			if hs, was := h.hist[string(k)]; was {
				for _, x := range hs {
					if x != nil && bytes.Equal(x, v) {
						ok = true
					}
				}
			} else if cv, was := h.atCreation[string(k)]; was && bytes.Equal(cv, v) {
				ok = true
			}
			if !ok {
				return fmt.Sprintf("held iterator yielded %x=%x which was never the key's value since the iterator was created", k, v)
			}
			h.yielded[string(k)] = true
			h.last, h.n = k, h.n+1
			w.stats["held_iterator_pairs_checked"]++
		}
	default: // full iterations
		for q := 0; q < 2; q++ {
			p, s := rPrefixStart(r)
			w.log = append(w.log, fmt.Sprintf("iterate prefix=%x start=%x", p, s))
			got, err := kvm.ReadAll(w.fl, p, s, -1)
			if err != nil {
				return "iterator error " + err.Error()
			}
			if why := kvm.SamePairs(got, w.V.Iter(p, s)); why != "" {
				return fmt.Sprintf("iterate(prefix=%x,start=%x): %s; got [%s] want [%s]", p, s, why, kvm.FmtPairs(got), kvm.FmtPairs(w.V.Iter(p, s)))
			}
			w.stats["iterate"]++
			if len(p) > 0 && p[len(p)-1] == 0xff {
				w.stats["iterate_prefix_ending_ff"]++
			}
		}
	}
	return w.afterOp(r)
}

// afterOp: the checks made after every operation
func (w *c22world) afterOp(r *rand.Rand) string {
	if n := w.fl.NotFlushedPairs(); n != len(w.dirty) {
		return fmt.Sprintf("NotFlushedPairs()=%d, distinct keys written since the last flush/drop: %d", n, len(w.dirty))
	}
	for q := 0; q < 6; q++ {
		if why := kvm.CheckPoint(w.fl, w.V, w.someKey(r)); why != "" {
			return why
		}
	}
	return ""
}

func runC22(c *ev.Ctx) {
	c.Rule = "random sequences of 80 operations on flushable.Wrap(X) and flushable.NewLazy(X), X in {memory, LevelDB, Pebble} (X pre-filled for Wrap): put, delete, batch put/delete/write (a quarter of the written batches is kept without Reset and written again later; the caller's key and value buffers are overwritten right after every Put and batch.Put), InitUnderlyingDb on lazy stores whose database already holds data, flush, drop-not-flushed, snapshots (get/iterate later), iterators created BEFORE later writes and advanced afterwards, full iterations for random (prefix,start) incl. nil, ff and a\\xff. " +
		"Oracle after EVERY operation: NotFlushedPairs == number of distinct keys written since the last flush/drop, Get/Has of 6 keys; iterations equal the model (underlying overlaid with unflushed writes, ascending); after Flush the raw underlying store equals the view; after Drop the view equals the underlying; snapshots keep their creation-time content; " +
		"iterators created before writes are held to the weak contract only (strictly ascending, inside prefix/start, each pair was the key's value at some time since creation, untouched keys are not lost). " +
		"non-trivial = distinct sequences containing a tombstone over an underlying key, a flush, a drop, a snapshot read after divergence and an iteration with a prefix ending in 0xff"
	c.Assumptions = []string{"non-nil keys and values", "a lazy flushable reads as an empty underlying store plus its overlay until its database is produced (InitUnderlyingDb or the first Flush); from then on the produced database, which may already hold data, is its underlying store", "the store is used from one goroutine here (C28 covers concurrency)"}
	nSeq := c.Pick(12000, 400000)
	workers := 16
	c.Parallel(workers, workers, func(wk int) {
		bench, err := kvm.NewBench(fmt.Sprintf("c22-%d", wk))
		if err != nil {
			fmt.Println("BROKEN: cannot create on-disk backends:", err)
			return
		}
		defer bench.Close()
		for s := wk; s < nSeq; s += workers {
			r := c.Rand("seq", s)
			var X kvdb.Store
			backend := []string{"memory", "leveldb", "pebble", "memory"}[s%4]
			switch backend {
			case "leveldb":
				X = bench.Level(0)
			case "pebble":
				X = bench.Pebble(0)
			default:
				X = memorydb.New()
			}
			if backend != "memory" {
				if err := bench.Wipe(); err != nil {
					c.Violation("wipe-failed", map[string]interface{}{"err": err.Error()})
					return
				}
			}
			w := &c22world{U: kvm.Model{}, V: kvm.Model{}, dirty: map[string]bool{}, stats: map[string]int{}}
			lazy := s%5 == 4
			if lazy {
				produced := false
				lz := flushable.NewLazy(func() (kvdb.Store, error) { produced = true; return X, nil }, func() {})
				w.fl = lz
				w.under = func() kvdb.Store {
					if produced {
						return X
					}
					return nil
				}
				if s%10 == 9 { // the database the lazy store will produce already holds data (a re-opened database)
					w.pendingX = kvm.Model{}
					for k := 0; k < 1+r.Intn(8); k++ {
						key, v := kvm.Key(r, 0, 3), kvm.Key(r, 0, 2)
						_ = X.Put(key, v)
						w.pendingX[string(key)] = v
					}
					w.initUnder = func() error { _, err := lz.InitUnderlyingDb(); return err }
				}
			} else {
				for k := 0; k < r.Intn(8); k++ {
					key, v := kvm.Key(r, 0, 3), kvm.Key(r, 0, 2)
					_ = X.Put(key, v)
					w.U[string(key)] = v
					w.V[string(key)] = v
					w.touched = append(w.touched, string(key))
				}
				w.fl = flushable.Wrap(X)
				w.under = func() kvdb.Store { return X }
			}
			bad := ""
			p, stack := ev.Try(func() {
				for op := 0; op < 80 && bad == ""; op++ {
					bad = w.step(r)
				}
				for _, sn := range w.snaps {
					sn.Release()
				}
				for _, h := range w.held {
					h.it.Release()
				}
			})
			if p != nil {
				bad = fmt.Sprintf("panic: %v\n%s", p, stack)
			}
			c.Eval(1)
			if bad != "" {
				c.Violation("flushable-differs-from-overlay-model", map[string]interface{}{"sequence": s, "backend": backend, "lazy": lazy, "ops": w.log, "mismatch": bad})
				continue
			}
			for k, v := range w.stats {
				c.Count("ops_"+k, int64(v))
			}
			st := w.stats
			if st["tombstone_over_underlying_key"] > 0 && st["flush"] > 0 && st["drop"] > 0 && st["snapshot_read_after_divergence"] > 0 && st["iterate_prefix_ending_ff"] > 0 {
				c.Nontrivial(ev.Hash(w.log))
			}
			if c.WantSample() {
				c.Sample(map[string]interface{}{"sequence": s, "backend": backend, "lazy": lazy, "ops": w.log})
			}
		}
	})
}
