package checks

import (
	"verif/cons"
	"verif/ev"
)

// C03 Cheater lists name exactly the visible forkers.
func init() { register("C03", "exploration", runC03) }

func runC03(c *ev.Ctx) {
	c.Rule = "generator as C01 but with ANY subset of validators forking (also >= 1/3 of the weight: such runs are kept up to the point where the implementation reports a Byzantine condition or the reference leaves its assumptions; blocks emitted before are still checked). " +
		"Oracle per block: Cheaters == [v in canonical order (weight desc, id asc) | two different events of v with equal seq are ancestors-or-self of the Atropos], computed from the reference's graph closure. " +
		"non-trivial = distinct DAG fingerprint having a block with a non-empty expected list, or a block whose expected list is empty although forks already exist in the epoch (fork not visible to the Atropos)"
	c.Assumptions = []string{"reference forkSeen = scan of the Atropos' ancestor closure for equal (creator, seq) with different IDs"}
	o := &campOpts{nDAGs: c.Pick(700, 8000), orders: c.Pick(3, 5), maxN: c.Pick(10, 16), minEvents: 60, maxEvents: c.Pick(350, 700), maxEpochs: 3,
		cheat: cons.CheatAny, critOnlyBelowThird: true,
		mine: map[string]bool{cons.DCheaters: true},
		nontrivial: func(d *cons.DAG, ts []*cons.Trace) bool {
			for _, t := range ts {
				if t.CheatBlk > 0 || t.HiddenFork > 0 {
					return true
				}
			}
			return false
		}}
	runCampaign(c, o)
}
