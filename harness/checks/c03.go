package checks

import (
	"math/rand"

	"github.com/Fantom-foundation/lachesis-base/inter/idx"
	"verif/cons"
	"verif/ev"
)

// C03 Cheater lists name exactly the visible forkers.
func init() { register("C03", "exploration", runC03) }

func runC03(c *ev.Ctx) {
	c.Rule = "generator as C01 but with ANY subset of validators forking (also >= 1/3 of the weight: such runs are kept up to the point where the implementation reports a Byzantine condition or the reference leaves its assumptions; blocks emitted before are still checked). " +
		"Every tenth DAG has 6 heavy honest validators and 14-18 light forkers (weights 1..3 with ties, ids not in weight order). Oracle per block: Cheaters == [v in canonical order (weight desc, id asc) | two different events of v with equal seq are ancestors-or-self of the Atropos], computed from the reference's graph closure. " +
		"non-trivial = distinct DAG fingerprint having a block with a non-empty expected list, or a block whose expected list is empty although forks already exist in the epoch (fork not visible to the Atropos)"
	c.Assumptions = []string{"reference forkSeen = scan of the Atropos' ancestor closure for equal (creator, seq) with different IDs"}
	o := &campOpts{nDAGs: c.Pick(700, 8000), orders: c.Pick(3, 5), maxN: c.Pick(10, 16), minEvents: 60, maxEvents: c.Pick(350, 700), maxEpochs: 3,
		cheat: cons.CheatAny, critOnlyBelowThird: true,
		mine: map[string]bool{cons.DCheaters: true},
		tweak: func(r *rand.Rand, i int, cfg *cons.GenCfg) *cons.GenCfg {
			if i%10 != 7 {
				return nil
			}
			// many cheaters at once: 6 heavy honest validators and 14-18 light ones (weights 1..3, ties included, together
			// below a third) that all fork early and often, so that blocks list thirteen and more cheaters
			nl := 14 + r.Intn(5)
			p := &cons.EpochPlan{Epoch: cfg.Plans[0].Epoch, Cheaters: map[int]bool{}}
			for k := 0; k < 6+nl; k++ {
				p.IDs = append(p.IDs, idx.ValidatorID(1000-37*k+r.Intn(30))) // ids not in weight order
				if k < 6 {
					p.Weights = append(p.Weights, uint64(24+r.Intn(3)))
				} else {
					p.Weights = append(p.Weights, uint64(1+r.Intn(3)))
					p.Cheaters[k] = true
				}
				p.Lag = append(p.Lag, 0)
			}
			c.Count("dags_with_fourteen_or_more_cheaters", 1)
			return &cons.GenCfg{Plans: []*cons.EpochPlan{p}, EventsPer: 500, MinParents: 2, MaxParents: 7, ForkProb: 0.45}
		},
		nontrivial: func(d *cons.DAG, ts []*cons.Trace) bool {
			for _, t := range ts {
				if t.CheatBlk > 0 || t.HiddenFork > 0 {
					return true
				}
			}
			return false
		}}
	runCampaign(c, o)
}
