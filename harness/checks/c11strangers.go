package checks

import (
	"fmt"

	"github.com/Fantom-foundation/lachesis-base/inter/idx"
	"github.com/Fantom-foundation/lachesis-base/inter/pos"

	"verif/ev"
)

// c11Strangers: counting calls that name IDs outside the set, mixed with calls by ID and by index. Whatever a call
// with a stranger's ID does, the clauses of the statement must survive it: the counted weight never shrinks, never
// exceeds the total, moves only when the call reports "new", the quorum flag follows the counted weight, and once
// every member has been named the whole set is counted (total reached, quorum reported).
func c11Strangers(c *ev.Ctx) {
	n := c.Pick(20000, 600000)
	c.Parallel(n, 0, func(i int) {
		r := c.Rand("strangers", i)
		k := 1 + r.Intn(8)
		b := pos.NewBuilder()
		ids := make([]idx.ValidatorID, 0, k)
		used := map[idx.ValidatorID]bool{}
		for len(ids) < k {
			id := idx.ValidatorID(1 + r.Intn(40))
			if used[id] {
				continue
			}
			used[id] = true
			ids = append(ids, id)
			w := pos.Weight(1 + r.Intn(100))
			if r.Intn(4) == 0 {
				w = pos.Weight(1 + r.Intn(1<<26))
			}
			b.Set(id, w)
		}
		v := b.Build()
		T, q := uint64(v.TotalWeight()), uint64(v.Quorum())
		wc := v.NewCounter()
		var log []string
		strangers := 0
		fail := func(why string) {
			c.Violation("counter-wrong-after-a-call-naming-a-stranger", map[string]interface{}{"case": i, "validators": fmt.Sprint(v), "calls": log, "why": why})
		}
		step := func(what string, call func() bool) bool {
			before := uint64(wc.Sum())
			var fresh bool
			if p, _ := ev.Try(func() { fresh = call() }); p != nil {
				log = append(log, what+" panics")
				fail(fmt.Sprint("panic: ", p))
				return false
			}
			after := uint64(wc.Sum())
			log = append(log, fmt.Sprintf("%s -> %v, sum %d", what, fresh, after))
			switch {
			case after < before:
				fail("the counted weight shrank")
			case after > T:
				fail(fmt.Sprintf("the counted weight %d exceeds the total %d", after, T))
			case !fresh && after != before:
				fail("a call that reported nothing new changed the counted weight")
			case wc.HasQuorum() != (after >= q):
				fail(fmt.Sprintf("quorum flag %v with %d counted, quorum %d", wc.HasQuorum(), after, q))
			default:
				return true
			}
			return false
		}
		for j, m := 0, r.Intn(2*k+2); j < m; j++ {
			switch r.Intn(3) {
			case 0:
				id := idx.ValidatorID(41 + r.Intn(1000))
				if r.Intn(4) == 0 {
					id = 0
				}
				strangers++
				if !step(fmt.Sprintf("Count(stranger %d)", id), func() bool { return wc.Count(id) }) {
					return
				}
			case 1:
				id := ids[r.Intn(k)]
				if !step(fmt.Sprintf("Count(%d)", id), func() bool { return wc.Count(id) }) {
					return
				}
			default:
				x := idx.Validator(r.Intn(k))
				if !step(fmt.Sprintf("CountByIdx(%d)", x), func() bool { return wc.CountByIdx(x) }) {
					return
				}
			}
		}
		for _, id := range ids {
			id := id
			if !step(fmt.Sprintf("Count(%d)", id), func() bool { return wc.Count(id) }) {
				return
			}
		}
		if uint64(wc.Sum()) != T || !wc.HasQuorum() {
			fail(fmt.Sprintf("every member was named, yet %d of %d is counted (quorum %v)", wc.Sum(), T, wc.HasQuorum()))
			return
		}
		c.Eval(1)
		if strangers > 0 {
			c.Count("counting_sequences_naming_strangers", 1)
			c.Count("calls_naming_a_stranger", int64(strangers))
		}
	})
}
