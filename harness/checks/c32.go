package checks

import (
	"bytes"
	"encoding/binary"
	"fmt"

	"github.com/Fantom-foundation/lachesis-base/common/bigendian"
	"github.com/Fantom-foundation/lachesis-base/common/littleendian"
	"github.com/Fantom-foundation/lachesis-base/hash"
	"github.com/Fantom-foundation/lachesis-base/inter/dag"
	"github.com/Fantom-foundation/lachesis-base/inter/idx"

	"verif/ev"
)

// C32 Index encodings are invertible and order preserving.
func init() { register("C32", "exploration", runC32) }

func runC32(c *ev.Ctx) {
	c.Rule = "16-bit: ALL values and all adjacent pairs; 32-bit: all values in thorough (2^32, sharded), in quick the boundary neighbourhoods of every byte carry plus 2*10^6 random values and pairs; 64-bit: boundaries of every byte carry plus random values and pairs; every idx type (Epoch, Event, Block, Lamport, Pack, ValidatorID, Frame) through its own Bytes/BytesTo pair; " +
		"big-endian: decode(encode(v)) == v, length fixed, bytes.Compare(enc(a),enc(b)) has the sign of a<=>b; little-endian: decode(encode(v)) == v and byte layout equals the standard library's; event IDs built by MutableBaseEvent.SetID and Build carry epoch and Lamport (ID.Epoch(), ID.Lamport()) and sort byte-wise by (epoch, Lamport). " +
		"Ownership: every encoding handed out is extended (append, as composite keys are built) and partly overwritten by the caller over windows of consecutive values, after which all values of the window still round-trip; lists of IDs with mixed epochs sorted by hash.OrderedEvents.ByEpochAndLamport come out in (epoch, Lamport, ID) order; several events built from one reused mutable event keep the ID, epoch, Lamport, seq and creator they were built with. " +
		"non-trivial = distinct value pairs whose encodings differ in a byte other than the last (a carry crossed a byte boundary)"
	c.Assumptions = []string{"order is compared with bytes.Compare on equal-length encodings"}
	c.Exhaustive = false
	fail := func(class string, kv map[string]interface{}) { c.Violation(class, kv) }
	c32Aliasing(c)
	c32SortedIDs(c)
	// ---- 16 bit exhaustive
	for v := 0; v <= 0xffff; v++ {
		x := uint16(v)
		be, le := bigendian.Uint16ToBytes(x), littleendian.Uint16ToBytes(x)
		if len(be) != 2 || len(le) != 2 || bigendian.BytesToUint16(be) != x || littleendian.BytesToUint16(le) != x || binary.LittleEndian.Uint16(le) != x || binary.BigEndian.Uint16(be) != x {
			fail("16-bit-round-trip", map[string]interface{}{"value": x})
			return
		}
		if v > 0 && bytes.Compare(bigendian.Uint16ToBytes(x-1), be) >= 0 {
			fail("16-bit-order", map[string]interface{}{"value": x})
			return
		}
	}
	c.Eval(1 << 16)
	c.Count("values_16bit_all", 1<<16)
	// ---- 32 bit
	check32 := func(a, b uint32) bool {
		ea, eb := bigendian.Uint32ToBytes(a), bigendian.Uint32ToBytes(b)
		la := littleendian.Uint32ToBytes(a)
		if len(ea) != 4 || len(la) != 4 || bigendian.BytesToUint32(ea) != a || littleendian.BytesToUint32(la) != a || binary.LittleEndian.Uint32(la) != a {
			fail("32-bit-round-trip", map[string]interface{}{"value": a})
			return false
		}
		cmp := bytes.Compare(ea, eb)
		want := 0
		if a < b {
			want = -1
		} else if a > b {
			want = 1
		}
		if cmp != want {
			fail("32-bit-order", map[string]interface{}{"a": a, "b": b})
			return false
		}
		// every idx type
		if idx.BytesToEpoch(idx.Epoch(a).Bytes()) != idx.Epoch(a) || idx.BytesToEvent(idx.Event(a).Bytes()) != idx.Event(a) || idx.BytesToLamport(idx.Lamport(a).Bytes()) != idx.Lamport(a) ||
			idx.BytesToFrame(idx.Frame(a).Bytes()) != idx.Frame(a) || idx.BytesToPack(idx.Pack(a).Bytes()) != idx.Pack(a) || idx.BytesToValidatorID(idx.ValidatorID(a).Bytes()) != idx.ValidatorID(a) {
			fail("idx-type-round-trip", map[string]interface{}{"value": a})
			return false
		}
		for name, pair := range map[string][2][]byte{"Epoch": {idx.Epoch(a).Bytes(), idx.Epoch(b).Bytes()}, "Event": {idx.Event(a).Bytes(), idx.Event(b).Bytes()}, "Lamport": {idx.Lamport(a).Bytes(), idx.Lamport(b).Bytes()},
			"Frame": {idx.Frame(a).Bytes(), idx.Frame(b).Bytes()}, "Pack": {idx.Pack(a).Bytes(), idx.Pack(b).Bytes()}, "ValidatorID": {idx.ValidatorID(a).Bytes(), idx.ValidatorID(b).Bytes()}} {
			if len(pair[0]) != 4 || bytes.Compare(pair[0], pair[1]) != want {
				fail("idx-type-order", map[string]interface{}{"type": name, "a": a, "b": b})
				return false
			}
		}
		if ea[0] != eb[0] || ea[1] != eb[1] || ea[2] != eb[2] {
			c.Nontrivial(ev.Hash(32, a, b))
		}
		return true
	}
	if c.Quick() {
		var pts []uint32
		for sh := uint(0); sh < 32; sh += 8 {
			for d := -3; d <= 3; d++ {
				for _, m := range []uint32{1, 0x7f, 0x80, 0xff} {
					pts = append(pts, (m<<sh)+uint32(d))
				}
			}
		}
		pts = append(pts, 0, 1, 1<<31-2, 1<<31-1, 1<<31, 1<<32-2, 1<<32-1)
		for _, a := range pts {
			for _, b := range pts {
				if !check32(a, b) {
					return
				}
			}
		}
		c.Eval(int64(len(pts) * len(pts)))
		c.Parallel(16, 0, func(w int) {
			r := c.Rand("r32", w)
			for i := 0; i < 125000; i++ {
				a := r.Uint32()
				b := a + uint32(r.Intn(5)) - 2
				if r.Intn(3) == 0 {
					b = r.Uint32()
				}
				if !check32(a, b) {
					return
				}
			}
			c.Eval(125000)
			c.Count("values_32bit_random", 125000)
		})
	} else {
		c.Exhaustive = true
		const shard = 1 << 22
		c.Parallel(1<<32/shard, 0, func(s int) {
			lo := uint64(s) * shard
			for v := lo; v < lo+shard; v++ {
				a := uint32(v)
				ea := bigendian.Uint32ToBytes(a)
				la := littleendian.Uint32ToBytes(a)
				if bigendian.BytesToUint32(ea) != a || littleendian.BytesToUint32(la) != a || binary.LittleEndian.Uint32(la) != a || idx.BytesToFrame(idx.Frame(a).Bytes()) != idx.Frame(a) {
					fail("32-bit-round-trip", map[string]interface{}{"value": a})
					return
				}
				if a != 0 && bytes.Compare(bigendian.Uint32ToBytes(a-1), ea) >= 0 {
					fail("32-bit-order", map[string]interface{}{"a": a - 1, "b": a})
					return
				}
				if a&0xfffff == 0 && !check32(a, a+1) {
					return
				}
			}
			c.Eval(shard)
			c.Count("values_32bit_all", shard)
		})
	}
	// ---- 64 bit
	check64 := func(a, b uint64) bool {
		ea, eb := bigendian.Uint64ToBytes(a), bigendian.Uint64ToBytes(b)
		la := littleendian.Uint64ToBytes(a)
		if len(ea) != 8 || len(la) != 8 || bigendian.BytesToUint64(ea) != a || littleendian.BytesToUint64(la) != a || binary.LittleEndian.Uint64(la) != a || idx.BytesToBlock(idx.Block(a).Bytes()) != idx.Block(a) {
			fail("64-bit-round-trip", map[string]interface{}{"value": a})
			return false
		}
		want := 0
		if a < b {
			want = -1
		} else if a > b {
			want = 1
		}
		if bytes.Compare(ea, eb) != want || bytes.Compare(idx.Block(a).Bytes(), idx.Block(b).Bytes()) != want {
			fail("64-bit-order", map[string]interface{}{"a": a, "b": b})
			return false
		}
		if !bytes.Equal(ea[:7], eb[:7]) {
			c.Nontrivial(ev.Hash(64, a, b))
		}
		return true
	}
	var p64 []uint64
	for sh := uint(0); sh < 64; sh += 8 {
		for d := -2; d <= 2; d++ {
			for _, m := range []uint64{1, 0x7f, 0x80, 0xff} {
				p64 = append(p64, (m<<sh)+uint64(d))
			}
		}
	}
	for _, a := range p64 {
		for _, b := range p64 {
			if !check64(a, b) {
				return
			}
		}
	}
	c.Eval(int64(len(p64) * len(p64)))
	n64 := c.Pick(2000000, 50000000)
	c.Parallel(16, 0, func(w int) {
		r := c.Rand("r64", w)
		for i := 0; i < n64/16; i++ {
			a := r.Uint64()
			b := a + uint64(r.Intn(5)) - 2
			if r.Intn(3) == 0 {
				b = r.Uint64()
			}
			if !check64(a, b) {
				return
			}
		}
		c.Eval(int64(n64 / 16))
	})
	// ---- event IDs carry epoch and Lamport and sort by them
	nid := c.Pick(300000, 5000000)
	c.Parallel(16, 0, func(w int) {
		r := c.Rand("ids", w)
		mk := func(ep, lam uint32, viaBuild bool) hash.Event {
			var rid [24]byte
			r.Read(rid[:])
			var me dag.MutableBaseEvent
			me.SetEpoch(idx.Epoch(ep))
			me.SetLamport(idx.Lamport(lam))
			if viaBuild {
				if r.Intn(2) == 0 {
					// a template that already carries an ID for other epoch/Lamport values, then rebuilt
					var old [24]byte
					r.Read(old[:])
					me.SetEpoch(idx.Epoch(r.Uint32()))
					me.SetLamport(idx.Lamport(r.Uint32()))
					me.SetID(old)
					me.SetEpoch(idx.Epoch(ep))
					me.SetLamport(idx.Lamport(lam))
				}
				return me.Build(rid).ID()
			}
			me.SetID(rid)
			return me.ID()
		}
		pick := func() uint32 {
			switch r.Intn(4) {
			case 0:
				return uint32(r.Intn(4))
			case 1:
				return uint32(0xff<<uint(8*r.Intn(4))) + uint32(r.Intn(3)) - 1
			default:
				return r.Uint32()
			}
		}
		for i := 0; i < nid/16; i++ {
			e1, l1, e2, l2 := pick(), pick(), pick(), pick()
			if r.Intn(3) == 0 {
				e2 = e1
			}
			a, b := mk(e1, l1, i%2 == 0), mk(e2, l2, i%3 == 0)
			if uint32(a.Epoch()) != e1 || uint32(a.Lamport()) != l1 || uint32(b.Epoch()) != e2 || uint32(b.Lamport()) != l2 {
				fail("event-id-does-not-carry-epoch-lamport", map[string]interface{}{"epoch": e1, "lamport": l1, "id": a.FullID()})
				return
			}
			if e1 != e2 || l1 != l2 {
				want := -1
				if e1 > e2 || (e1 == e2 && l1 > l2) {
					want = 1
				}
				if bytes.Compare(a.Bytes(), b.Bytes()) != want {
					fail("event-id-order", map[string]interface{}{"a": fmt.Sprint(e1, ":", l1), "b": fmt.Sprint(e2, ":", l2)})
					return
				}
				c.Nontrivial(ev.Hash("id", e1, l1, e2, l2))
			}
		}
		c.Eval(int64(nid / 16))
		c.Count("event_id_pairs", int64(nid/16))
	})
	c.Sample(map[string]interface{}{"16-bit": "all 65536 values and adjacent pairs", "32-bit boundary example": []uint32{0x00ffffff, 0x01000000}, "event id example": "epoch=255 lamport=256 vs epoch=256 lamport=0"})
}
