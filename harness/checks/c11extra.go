package checks

import (
	"fmt"

	"github.com/Fantom-foundation/lachesis-base/inter/idx"
	"github.com/Fantom-foundation/lachesis-base/inter/pos"

	"verif/ev"
)

// c11Extra: (d) sets whose true total lies above the maximum must never come into existence with some other total
// (their quorum would be computed from a wrapped number); (e) a set keeps reaching its quorum as a whole, and its
// counter keeps working, after the builder it came from (or one taken from it) is edited.
func c11Extra(c *ev.Ctx) {
	n := c.Pick(60000, 2000000)
	c.Parallel(n, 0, func(i int) {
		r := c.Rand("over", i)
		k := 1 + r.Intn(5)
		ws := make([]uint64, k)
		var sum uint64
		// choose the true total first, in one of the regimes, then split it into k weights below 2^32
		var target uint64
		switch i % 5 {
		case 0:
			target = 1<<31 + uint64(r.Int63n(1<<31)) // [2^31, 2^32)
		case 1:
			target = 1<<32 + uint64(r.Int63n(1<<31)) // wraps to a value that would pass the limit check
		case 2:
			target = uint64(1+r.Intn(4))<<32 + uint64(r.Int63n(1<<20)) // multiple of 2^32 plus little
		case 3:
			target = 1<<31 + uint64(r.Intn(3)) // just above
		default:
			target = uint64(k) * (1<<32 - 1) // everything at the top
		}
		left := target
		for j := 0; j < k; j++ {
			max := uint64(1<<32 - 1)
			rest := uint64(k-j-1) * max
			lo := uint64(1)
			if left > rest {
				lo = left - rest
			}
			hi := left - uint64(k-j-1)
			if hi > max {
				hi = max
			}
			if lo > hi {
				return // the target cannot be split into k weights
			}
			w := lo
			if j < k-1 && hi > lo {
				w = lo + uint64(r.Int63n(int64(hi-lo+1)))
			} else if j == k-1 {
				w = left
			}
			ws[j] = w
			left -= w
			sum += w
		}
		if sum != target || sum <= maxTotal {
			return
		}
		c.Eval(1)
		b := pos.NewBuilder()
		for j, w := range ws {
			b.Set(idx.ValidatorID(j+1), pos.Weight(w))
		}
		var v *pos.Validators
		p, _ := ev.Try(func() { v = b.Build() })
		if p == nil {
			c.Violation("set-above-the-maximum-total-accepted", map[string]interface{}{"weights": ws, "true_total": sum, "reported_total": v.TotalWeight(), "reported_quorum": v.Quorum()})
			return
		}
		c.Count("over_limit_sets_rejected", 1)
		c.Nontrivial(ev.Hash("over", fmt.Sprint(ws)))
	})
	c.Parallel(c.Pick(20000, 400000), 0, func(i int) { c12HandMadeRLP(c, c.Rand("handmade", i), i) }) // sets that come out of the decoder
	c.Parallel(c.Pick(10000, 200000), 0, func(i int) { c12Aliasing(c, c.Rand("alias11", i), i) })     // ... also into a destination that already held a set; total and quorum of every set involved are re-derived
	n2 := c.Pick(20000, 400000)
	c.Parallel(n2, 0, func(i int) {
		r := c.Rand("reuse", i)
		m := c12randMap(r, 7)
		bp, v := c12build(m)
		T := uint64(v.TotalWeight())
		q := T*2/3 + 1
		c.Eval(1)
		for step := 0; step < 3; step++ {
			var log []string
			switch step {
			case 0:
				log = c12mutate(r, *bp, copyMap(m))
			case 1:
				log = c12mutate(r, v.Builder(), copyMap(m))
			default:
				log = c12mutate(r, v.Copy().Builder(), copyMap(m))
			}
			why := ""
			p, _ := ev.Try(func() {
				if uint64(v.TotalWeight()) != T || uint64(v.Quorum()) != q {
					why = fmt.Sprintf("total %d quorum %d, were %d and %d", v.TotalWeight(), v.Quorum(), T, q)
					return
				}
				wc := v.NewCounter()
				var sum uint64
				for id, w := range m {
					if !wc.Count(id) {
						why = fmt.Sprintf("validator %d of the set is refused by its counter", id)
						return
					}
					sum += w
					if uint64(wc.Sum()) != sum || wc.HasQuorum() != (sum >= q) {
						why = fmt.Sprintf("after counting %d the counter holds %d (quorum %v), want %d", id, wc.Sum(), wc.HasQuorum(), sum)
						return
					}
				}
				if !wc.HasQuorum() {
					why = "the whole set does not reach the quorum"
				}
			})
			if p != nil {
				why = fmt.Sprint("panic: ", p)
			}
			if why != "" {
				c.Violation("whole-set-no-quorum-or-double-count", map[string]interface{}{"pairs": fmt.Sprint(c12canon(m)), "after": []string{"edit of the builder the set was built from", "edit of set.Builder()", "edit of set.Copy().Builder()"}[step], "edits": log, "why": why})
				return
			}
		}
		c.Count("sets_counted_after_builder_edits", 1)
	})
}
