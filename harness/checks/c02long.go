package checks

import (
	"fmt"

	"verif/cons"
	"verif/ev"

	"github.com/Fantom-foundation/lachesis-base/hash"
	"github.com/Fantom-foundation/lachesis-base/inter/idx"
)

// c02LongEpoch drives one very long epoch (more frames than fit into 16 bits) through a real instance and checks the
// C02 delivery rules without the reference model (its from-scratch election would be quadratic here): ancestry is a
// DFS over the parents lists that stops at events already delivered.
//
//	variant 0: a single validator, every event is the root of the next frame
//	variant 1: validators with weights 3 and 1 (the first alone is a quorum); the second joins every few hundred
//	           events, so blocks regularly deliver two creators' events and multi-event ancestries
func c02LongEpoch(c *ev.Ctx, variant int, nEvents int) {
	ids := []idx.ValidatorID{1}
	weights := []uint64{1}
	if variant == 1 {
		ids, weights = []idx.ValidatorID{1, 2}, []uint64{3, 1}
	}
	r := c.Rand("long", variant)
	in := cons.NewInst(1, cons.BuildValidators(ids, weights), nil, cons.InstCfg{Index: cons.IdxLite})
	parents := map[hash.Event]hash.Events{}
	delivered := map[hash.Event]idx.Frame{}
	bad := false
	viol := func(class string, kv map[string]interface{}) {
		kv["variant"], kv["events"] = variant, nEvents
		c.Violation(class, kv)
		bad = true
	}
	lastFrame := idx.Frame(0)
	multi := 0
	in.OnBlock = func(b *cons.Block) {
		if bad {
			return
		}
		if b.Frame != lastFrame+1 {
			viol(cons.DFrameNumber, map[string]interface{}{"impl_frame": b.Frame, "previous_block_frame": lastFrame})
			return
		}
		lastFrame = b.Frame
		// expected: ancestors-or-self of the Atropos not delivered by an earlier block
		want := map[hash.Event]bool{}
		stack := []hash.Event{b.Atropos}
		for len(stack) > 0 {
			h := stack[len(stack)-1]
			stack = stack[:len(stack)-1]
			if want[h] {
				continue
			}
			if _, ok := delivered[h]; ok {
				continue
			}
			want[h] = true
			stack = append(stack, parents[h]...)
		}
		got := map[hash.Event]bool{}
		for _, h := range b.Events {
			if f, ok := delivered[h]; ok {
				viol(cons.DDeliveredTwice, map[string]interface{}{"event": h.String(), "first_frame": f, "again_frame": b.Frame})
				return
			}
			if got[h] {
				viol(cons.DDeliveredTwice, map[string]interface{}{"event": h.String(), "within_block": b.Frame})
				return
			}
			got[h] = true
		}
		if len(got) != len(want) {
			viol(cons.DDelivered, map[string]interface{}{"frame": b.Frame, "delivered": len(got), "new_ancestry": len(want)})
			return
		}
		for h := range want {
			if !got[h] {
				viol(cons.DDelivered, map[string]interface{}{"frame": b.Frame, "missing": h.String()})
				return
			}
		}
		for h := range got {
			delivered[h] = b.Frame
		}
		if len(got) > 1 {
			multi++
		}
		if b.Frame%4096 == 0 || (b.Frame > 65530 && b.Frame < 65545) {
			isRoot := false
			for _, rt := range in.Store.GetFrameRoots(b.Frame) {
				if rt.ID == b.Atropos {
					isRoot = true
				}
			}
			if !isRoot {
				viol(cons.DAtroposNotRoot, map[string]interface{}{"frame": b.Frame, "atropos": b.Atropos.String()})
			}
			c.Count("long_epoch_atropos_root_probes", 1)
		}
	}
	var last [2]*cons.Ev
	seq := [2]idx.Event{}
	mk := func(who int, other *cons.Ev) bool {
		e := &cons.Ev{}
		e.SetEpoch(1)
		e.SetCreator(ids[who])
		seq[who]++
		e.SetSeq(seq[who])
		var ps hash.Events
		lam := idx.Lamport(0)
		if last[who] != nil {
			ps = append(ps, last[who].ID())
			lam = last[who].Lamport()
		}
		if other != nil {
			ps = append(ps, other.ID())
			if other.Lamport() > lam {
				lam = other.Lamport()
			}
		}
		e.SetParents(ps)
		e.SetLamport(lam + 1)
		e.Name = fmt.Sprintf("v%d.%d", ids[who], seq[who])
		if err := in.Build(e); err != nil {
			viol(cons.DCrit, map[string]interface{}{"event": e.Name, "err": "Build: " + err.Error()})
			return false
		}
		e.SetHashID(uint64(variant))
		parents[e.ID()] = ps
		if err := in.Process(e); err != nil {
			viol(cons.DCrit, map[string]interface{}{"event": e.Name, "err": err.Error()})
			return false
		}
		last[who] = e
		return true
	}
	nextJoin := 50
	for k := 0; k < nEvents && !bad; k++ {
		if variant == 1 && k == nextJoin {
			if !mk(1, last[0]) {
				break
			}
			nextJoin = k + 100 + r.Intn(600)
			if !mk(0, last[1]) {
				break
			}
			continue
		}
		if !mk(0, nil) {
			break
		}
	}
	in.OnBlock = nil
	c.Eval(1)
	c.Max("long_epoch_max_frame_decided", int64(lastFrame))
	c.Count("long_epoch_events_delivered", int64(len(delivered)))
	c.Count("long_epoch_multi_event_blocks", int64(multi))
	if !bad && lastFrame > 65536+2 {
		c.Count("long_epochs_past_65536_frames", 1)
		c.Nontrivial(uint64(0x10000 + variant))
	}
}
