package checks

import (
	"fmt"
	"math/rand"

	"github.com/Fantom-foundation/lachesis-base/hash"
	"github.com/Fantom-foundation/lachesis-base/inter/dag"
	"github.com/Fantom-foundation/lachesis-base/inter/idx"
	"github.com/Fantom-foundation/lachesis-base/kvdb/memorydb"
	"github.com/Fantom-foundation/lachesis-base/utils/adapters"
	"github.com/Fantom-foundation/lachesis-base/vecfc"

	"verif/cons"
	"verif/ev"
)

// C05 Forkless-cause index equals the graph definition; C06 merged vector clock reports highest observed
// sequence or a fork. Both drive vecfc.Index directly (Reset over a memorydb, Add, Flush) on k indexes filled
// in different parents-first orders with different cache sizes, with interleaved Add+DropNotFlushed of
// dummy events, and compare with the reference's graph closure.
func init() {
	register("C05", "exploration", func(c *ev.Ctx) { runVec(c, true) })
	register("C06", "exploration", func(c *ev.Ctx) { runVec(c, false) })
}

type vecIdx struct {
	vi  *vecfc.Index
	src map[hash.Event]dag.Event
	db  *memorydb.Database
}

func (x *vecIdx) getEvent(h hash.Event) dag.Event {
	e, ok := x.src[h]
	if !ok {
		return nil
	}
	return e
}

func newVecIdx(plan *cons.EpochPlan, cfg cons.IndexCfg) *vecIdx {
	x := &vecIdx{src: map[hash.Event]dag.Event{}, db: memorydb.New()}
	crit := func(err error) { panic(err) }
	x.vi = vecfc.NewIndex(crit, cfg.Config())
	x.vi.Reset(plan.Validators(), x.db, x.getEvent)
	return x
}

func (x *vecIdx) add(e *cons.Ev) error {
	x.src[e.ID()] = e
	if err := x.vi.Add(e); err != nil {
		x.vi.DropNotFlushed()
		delete(x.src, e.ID())
		return err
	}
	x.vi.Flush()
	return nil
}

// addAndDrop indexes a dummy child of random known events and drops it again (as a failed Process does).
func (x *vecIdx) addAndDrop(r *rand.Rand, plan *cons.EpochPlan, known []*cons.Ev, salt uint64) {
	if len(known) == 0 {
		return
	}
	sp := known[r.Intn(len(known))]
	e := &cons.Ev{}
	e.SetEpoch(sp.Epoch())
	e.SetCreator(sp.Creator())
	e.SetSeq(sp.Seq() + 1)
	ps := hash.Events{sp.ID()}
	lam := sp.Lamport()
	for k := 0; k < r.Intn(3); k++ {
		o := known[r.Intn(len(known))]
		if o.Creator() != sp.Creator() && o.ID() != sp.ID() {
			dup := false
			for _, p := range ps {
				if p == o.ID() {
					dup = true
				}
			}
			if !dup {
				ps = append(ps, o.ID())
				if o.Lamport() > lam {
					lam = o.Lamport()
				}
			}
		}
	}
	e.SetParents(ps)
	e.SetLamport(lam + 1)
	e.SetFrame(1)
	e.SetHashID(salt)
	x.src[e.ID()] = e
	_ = x.vi.Add(e)
	x.vi.DropNotFlushed()
	delete(x.src, e.ID())
}

func runVec(c *ev.Ctx, fcSide bool) {
	if fcSide {
		c.Rule = "plain DAGs (1..10 validators, all weight regimes, every fork style, ANY cheater weight, lag, partitions), <=60 events (thorough <=150); the index is filled in 3 parents-first orders with cache sizes {lite, default, 1 entry}, one index also gets dummy Add+DropNotFlushed between real events; " +
			"ForklessCause(a,b) is asked for ALL ordered pairs, in shuffled order, twice (cold and warm cache), and compared with the graph definition (reference closure). " +
			"non-trivial = distinct DAG fingerprint with >=1 true pair, >=1 pair false only because of a seen fork (B's creator or not enough fork-free weight) and >=1 pair false for lack of quorum"
	} else {
		c.Rule = "same DAGs and indexes as C05; for every event and validator GetMergedHighestBefore(e).Get(i) is read through vecfc.Index and through adapters.VectorToDagIndexer and compared with the reference (fork <=> two different events of the validator with equal seq among ancestors-or-self; otherwise the highest seq, 0 if none). " +
			"non-trivial = distinct DAG fingerprint containing an event that sees a fork of one forking validator and not (yet) of another"
	}
	c.Assumptions = []string{"reference = transitive closure over parents; fork = equal (creator, seq) with different IDs inside the closure", "events are structurally valid (self-parent first, seq = self-parent seq + 1)"}
	if fcSide {
		c.Rule += " Plus dropped batches: fork twins F1, F2 and an event A seeing only F1 are indexed unflushed (F1,F2,A), asked about and dropped, then indexed for good as F2,F1,A; a fresh index gets the final order only; both must agree on ForklessCause(A,b) and (b,A) for every b, A's pairs asked first."
		c.Parallel(c.Pick(3000, 60000), 0, func(i int) { c05DroppedBatch(c, i) })
	}
	nD := c.Pick(1500, 20000)
	maxEv := c.Pick(70, 150)
	c.Parallel(nD, 0, func(i int) {
		r := c.Rand("dag", i)
		plans := cons.RandomPlans(r, 1, 10, i%5 == 4, cons.CheatAny)
		large := i%12 == 11
		if large {
			// more validators than bits in a machine word; the forking validators are the lightest ones, i.e. the
			// ones with the highest canonical indexes
			nv := 66 + r.Intn(14)
			plans = cons.RandomPlans(r, 1, -nv, false, cons.CheatNone)
			for k := range plans[0].Weights {
				plans[0].Weights[k] = 2
				plans[0].Lag[k] = 0
				if k >= 64-r.Intn(3) {
					plans[0].Weights[k] = 1
					plans[0].Cheaters[k] = true
				}
			}
			c.Count("dags_with_more_than_64_validators", 1)
		}
		plan := plans[0]
		n := len(plan.IDs)
		cfg := &cons.GenCfg{Plans: plans, Plain: true, EventsPer: 10 + r.Intn(maxEv-9), MinParents: r.Intn(2), MaxParents: 2 + r.Intn(n+1), ForkProb: 0.05 + r.Float64()*0.4}
		if large {
			cfg.EventsPer, cfg.MinParents, cfg.MaxParents, cfg.ForkProb = 160+r.Intn(60), 2, 8, 0.5
		}
		if r.Intn(3) == 0 {
			cfg.PartProb = 0.03
		}
		d, _, err := cons.Generate(r, cfg)
		if err != nil {
			panic(err)
		}
		evs := d.Epochs[0].Events
		if len(evs) == 0 {
			return
		}
		ref := cons.NewRef(plan.IDs, plan.Weights)
		for _, e := range evs {
			ref.Add(e, nil)
		}
		N := ref.Len()
		var idxs []*vecIdx
		for k := 0; k < 3; k++ {
			x := newVecIdx(plan, cons.IndexCfg(k))
			order := cons.Order(r, evs, cons.OrderKind([]cons.OrderKind{cons.OrdRandom, cons.OrdLIFO, cons.OrdCreatorLate, cons.OrdFIFO, cons.OrdGen}[(i+k)%5]))
			var known []*cons.Ev
			// C05, third index: the last few events are first indexed WITHOUT flushing, asked about, dropped (as a failed
			// batch is), and indexed again in another order - fork branches may get other numbers the second time
			tailFrom := -1
			if fcSide && k == 2 && len(order) > 6 {
				tailFrom = len(order) - 2 - r.Intn(4)
			}
			for j, e := range order {
				if j == tailFrom {
					tail := order[j:]
					ok := true
					if p, _ := ev.Try(func() {
						for _, t := range tail {
							x.src[t.ID()] = t
							if err := x.vi.Add(t); err != nil {
								ok = false
								return
							}
						}
					}); p != nil || !ok {
						c.Violation("index-add-failed", map[string]interface{}{"case": i, "after": "unflushed tail", "panic": fmt.Sprint(p), "dag": describeDAG(d)})
						return
					}
					for q := 0; q < 3; q++ {
						a, b := tail[r.Intn(len(tail))], order[r.Intn(len(order))]
						ai, _ := ref.Index(a.ID())
						bi, _ := ref.Index(b.ID())
						if got := x.vi.ForklessCause(a.ID(), b.ID()); got != ref.FC(ai, bi) {
							c.Violation("forkless-cause-differs-from-definition", map[string]interface{}{"case": i, "index": k, "pass": "unflushed tail", "a": a.Name, "b": b.Name, "impl": got, "definition": ref.FC(ai, bi), "dag": describeDAG(d)})
							return
						}
					}
					x.vi.DropNotFlushed()
					for _, t := range tail {
						delete(x.src, t.ID())
					}
					again := cons.Order(r, tail, cons.OrderKind([]cons.OrderKind{cons.OrdLIFO, cons.OrdRandom, cons.OrdCreatorLate}[i%3]))
					for _, t := range again {
						if err := x.add(t); err != nil {
							c.Violation("index-add-failed", map[string]interface{}{"case": i, "event": t.Name, "after": "re-indexing a dropped tail", "err": err.Error(), "dag": describeDAG(d)})
							return
						}
					}
					for q := 0; q < 4; q++ {
						a, b := tail[r.Intn(len(tail))], order[r.Intn(len(order))]
						ai, _ := ref.Index(a.ID())
						bi, _ := ref.Index(b.ID())
						if got := x.vi.ForklessCause(a.ID(), b.ID()); got != ref.FC(ai, bi) {
							c.Violation("forkless-cause-differs-from-definition", map[string]interface{}{"case": i, "index": k, "pass": "right after re-indexing a dropped tail in another order", "a": a.Name, "b": b.Name, "impl": got, "definition": ref.FC(ai, bi), "dag": describeDAG(d)})
							return
						}
					}
					c.Count("unflushed_tails_dropped_and_reindexed", 1)
					break
				}
				if k == 1 && r.Intn(3) == 0 {
					x.addAndDrop(r, plan, known, uint64(j+1))
					c.Count("dummy_add_then_drop", 1)
				}
				var aerr error
				if p, _ := ev.Try(func() { aerr = x.add(e) }); p != nil || aerr != nil {
					c.Violation("index-add-failed", map[string]interface{}{"case": i, "event": e.Name, "panic": fmt.Sprint(p), "err": fmt.Sprint(aerr), "dag": describeDAG(d)})
					return
				}
				known = append(known, e)
				if !fcSide && (k == 2 || r.Intn(4) == 0) {
					// merged clocks are also asked for BETWEEN insertions (a node computes the cheaters of a block while the
					// DAG keeps growing): a query must not change what later events, built on top of the queried one, report
					x.vi.GetMergedHighestBefore(e.ID())
					x.vi.GetMergedHighestBefore(known[r.Intn(len(known))].ID())
					c.Count("merged_clock_queries_between_insertions", 2)
				}
			}
			idxs = append(idxs, x)
		}
		c.Eval(1)
		// C06: one long-lived index object is Reset to a second database, filled there with the same events in another
		// order (fork branches get other numbers), queried, and Reset BACK to the first database: the answers must be
		// those of the first database's content again (nothing cached from the other database may survive).
		if !fcSide && i%2 == 0 && n > 1 {
			x := idxs[0]
			for a := 0; a < N; a++ {
				x.vi.GetMergedHighestBefore(ref.Ev(a).ID)
			}
			db1 := x.db
			x.vi.Reset(plan.Validators(), memorydb.New(), x.getEvent)
			other := cons.Order(r, evs, cons.OrderKind([]cons.OrderKind{cons.OrdLIFO, cons.OrdRandom, cons.OrdCreatorEarly, cons.OrdFIFO}[i/2%4]))
			if i/2%3 != 0 {
				other = other[:r.Intn(len(other)/2+1)] // the second database holds a smaller DAG (fewer events, fewer or no fork branches)
			}
			for _, e := range other {
				if err := x.add(e); err != nil {
					c.Violation("index-add-failed", map[string]interface{}{"case": i, "event": e.Name, "after": "Reset to a second database", "err": err.Error()})
					return
				}
			}
			for _, e := range other {
				x.vi.GetMergedHighestBefore(e.ID())
			}
			x.vi.Reset(plan.Validators(), db1, x.getEvent)
			c.Count("indexes_reset_to_another_database_and_back", 1)
		}
		// C06: an index object that first served a small database of its own (a prefix of the DAG) is Reset to the full
		// database written by ANOTHER index object, as after a restart: it must answer from what that database holds.
		if !fcSide && i%2 == 1 && len(idxs) >= 2 {
			y := newVecIdx(plan, cons.IndexCfg(i%3))
			for _, e := range evs[:r.Intn(len(evs)/3+1)] {
				if err := y.add(e); err != nil {
					c.Violation("index-add-failed", map[string]interface{}{"case": i, "event": e.Name, "after": "small private database", "err": err.Error()})
					return
				}
				y.vi.GetMergedHighestBefore(e.ID())
			}
			y.src = idxs[1].src
			y.db = idxs[1].db
			y.vi.Reset(plan.Validators(), y.db, y.getEvent)
			idxs = append(idxs, y)
			c.Count("indexes_reset_onto_a_database_written_by_another_index", 1)
		}
		// a long-lived index: after all queries of the first round it is Reset() to the same validators with
		// DIFFERENT weights over a fresh DB and the same events (same IDs) are indexed again; answers must be
		// those of the new weights (no state may survive a Reset).
		if fcSide && i%2 == 0 && n > 1 {
			x := idxs[0]
			for a := 0; a < N; a++ {
				for b := 0; b < N; b++ {
					x.vi.ForklessCause(ref.Ev(a).ID, ref.Ev(b).ID) // warm every cache with the old weights
				}
			}
			w2 := cons.RandomWeights(r, n, false)
			plan2 := &cons.EpochPlan{Epoch: plan.Epoch, IDs: plan.IDs, Weights: w2}
			ref2 := cons.NewRef(plan2.IDs, plan2.Weights)
			x.src = map[hash.Event]dag.Event{}
			x.vi.Reset(plan2.Validators(), memorydb.New(), func(h hash.Event) dag.Event {
				e, ok := x.src[h]
				if !ok {
					return nil
				}
				return e
			})
			for _, e := range evs {
				ref2.Add(e, nil)
				if err := x.add(e); err != nil {
					c.Violation("index-add-failed", map[string]interface{}{"case": i, "event": e.Name, "after": "Reset with new weights", "err": err.Error()})
					return
				}
			}
			for a := 0; a < N; a++ {
				for b := 0; b < N; b++ {
					want := ref2.FC(a, b)
					got := x.vi.ForklessCause(ref2.Ev(a).ID, ref2.Ev(b).ID)
					if got != want {
						c.Violation("forkless-cause-stale-after-reset", map[string]interface{}{"case": i, "a": evs[a].Name, "b": evs[b].Name, "impl": got, "definition": want,
							"old_weights": plan.Weights, "new_weights": w2, "dag": describeDAG(d)})
						return
					}
				}
			}
			c.Count("fc_pairs_checked_after_reset_with_new_weights", int64(N*N))
			idxs = idxs[1:]
		}
		vals := plan.Validators()
		if fcSide {
			var nTrue, nForkFalse, nQuorumFalse int
			pairs := r.Perm(N * N)
			for k, x := range idxs {
				for pass := 0; pass < 2; pass++ {
					for _, pq := range pairs {
						a, b := pq/N, pq%N
						want := ref.FC(a, b)
						var got bool
						if p, _ := ev.Try(func() { got = x.vi.ForklessCause(ref.Ev(a).ID, ref.Ev(b).ID) }); p != nil {
							c.Violation("forkless-cause-panic", map[string]interface{}{"case": i, "a": evs[a].Name, "b": evs[b].Name, "panic": fmt.Sprint(p), "dag": describeDAG(d)})
							return
						}
						if got != want {
							c.Violation("forkless-cause-differs-from-definition", map[string]interface{}{"case": i, "index": k, "pass": pass, "a": evs[a].Name, "b": evs[b].Name, "impl": got, "definition": want, "dag": describeDAG(d)})
							return
						}
						if k == 0 && pass == 0 {
							if want {
								nTrue++
							} else if ref.Anc(a).Has(b) {
								// b is an ancestor but FC is false: because of forks or lack of quorum
								_, forkOfB := ref.Highest(a, ref.Ev(b).Creator)
								anyFork := forkOfB
								for _, id := range ref.Sorted() {
									if _, f := ref.Highest(a, id); f {
										anyFork = true
									}
								}
								if anyFork {
									nForkFalse++
								} else {
									nQuorumFalse++
								}
							}
						}
					}
				}
				c.Count("fc_pairs_checked", int64(2*N*N))
			}
			c.Count("fc_pairs_true", int64(nTrue))
			c.Count("fc_pairs_false_with_fork_seen", int64(nForkFalse))
			c.Count("fc_pairs_false_no_quorum", int64(nQuorumFalse))
			if nTrue > 0 && nForkFalse > 0 && nQuorumFalse > 0 {
				c.Nontrivial(d.FP)
			}
		} else {
			mixed := false
			for k, x := range idxs {
				ad := &adapters.VectorToDagIndexer{Index: x.vi}
				for a := 0; a < N; a++ {
					m := x.vi.GetMergedHighestBefore(ref.Ev(a).ID)
					m2 := ad.GetMergedHighestBefore(ref.Ev(a).ID)
					sawFork, sawNoForkOfCheater := false, false
					for vi, id := range vals.SortedIDs() {
						hi, fork := ref.Highest(a, id)
						bs := m.Get(idx.Validator(vi))
						bs2 := m2.Get(idx.Validator(vi))
						ok := bs.IsForkDetected() == fork && (fork || bs.Seq == hi)
						ok2 := bs2.IsForkDetected() == fork && (fork || bs2.Seq() == hi)
						if !ok || !ok2 {
							c.Violation("merged-clock-differs-from-definition", map[string]interface{}{"case": i, "index": k, "event": evs[a].Name, "validator": id,
								"impl_seq": bs.Seq, "impl_fork": bs.IsForkDetected(), "adapter_seq": bs2.Seq(), "adapter_fork": bs2.IsForkDetected(), "def_seq": hi, "def_fork": fork, "dag": describeDAG(d)})
							return
						}
						c.Count("clock_entries_checked", 1)
						if fork {
							sawFork = true
							c.Count("fork_observations", 1)
						} else {
							for ci := range plan.Cheaters {
								if plan.IDs[ci] == id {
									sawNoForkOfCheater = true
								}
							}
						}
					}
					if sawFork && sawNoForkOfCheater {
						mixed = true
					}
				}
			}
			if mixed {
				c.Nontrivial(d.FP)
			}
		}
		if c.WantSample() {
			s := describeDAG(d)
			s["case"] = i
			s["events"] = N
			c.Sample(s)
		}
	})
}
