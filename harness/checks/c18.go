package checks

import (
	"fmt"
	"math/rand"
	"sort"
	"sync"
	"time"

	"github.com/Fantom-foundation/lachesis-base/gossip/basestream/basestreamleecher"
	"github.com/Fantom-foundation/lachesis-base/gossip/basestream/basestreamleecher/basepeerleecher"

	"verif/ev"
)

// C18 Leechers respect flow control and peer removal.
func init() { register("C18", "exploration", runC18) }

func runC18(c *ev.Ctx) {
	c.Rule = "(A) peer leecher: a real BasePeerLeecher (ticker 1-3 ms, parallelism 1..5) against a scripted peer: the harness delivers at most the requested number of chunks (unique ids), marks delivered chunks processed in random order, flips Suspend on/off, in every third run floods up to twice 2*parallelism+1..3 unrequested chunks while nothing is processed, sleeps 0-3 ms between steps and finally reports Done; every sixth run starts on a download that is already done (no request at all may go out). Oracle over the callback stream (schedule independent): every RequestChunks(n) is preceded, since the previous request, by a Suspend() answer of false and the most recent answer is false; " +
		"sum of requested chunks <= (#chunks for which IsProcessed answered true) + parallelism at every request; no request after Done() answered true and the loop exits (watchdog 100x the tick, canary-guarded); with capacity available and no suspension the window is refilled (bounded progress, canary-guarded). " +
		"(B) base leecher: callbacks implemented over the exported Peers registry; StartSession prefers a peer that is being unregistered right now; three goroutines own disjoint peer names and register / unregister them while the ticker (1 ms) and ShouldTerminateSession flips drive sessions; then Terminate. Oracle: StartSession only when no session is running; after UnregisterPeer(p) returned no session with p is running and none starts until p is registered again; no session starts after Terminate returned. " +
		"non-trivial = distinct peer-leecher runs with a suspension while capacity was available and >= 3 refills, and distinct base-leecher runs in which a peer was unregistered while it had the running session"
	c.Assumptions = []string{"the harness' callbacks are the only observers; timing only decides 'stops eventually' and 'refills eventually', with generous bounds and a scheduling canary"}
	nA := c.Pick(400, 6000)
	c.Parallel(nA, 16, func(i int) {
		cls, detail, inc := rtVerdict(3, 150*time.Millisecond, func() (string, map[string]interface{}) { return c18Peer(c, c.Rand("peer", i), i) })
		c.Inconclusive(int64(inc))
		c.Eval(1)
		if cls != "" {
			c.Violation(cls, detail)
		}
	})
	nB := c.Pick(300, 5000)
	c.Parallel(nB, 16, func(i int) {
		cls, detail := c18Base(c, c.Rand("base", i), i)
		c.Eval(1)
		if cls != "" {
			c.Violation(cls, detail)
		}
	})
}

func c18Peer(c *ev.Ctx, r *rand.Rand, caseN int) (string, map[string]interface{}) {
	par := 1 + r.Intn(5)
	tick := time.Duration(1+r.Intn(3)) * time.Millisecond
	var mu sync.Mutex
	suspended, done := false, false
	processed := map[int]bool{}
	answeredTrue := map[int]bool{}
	var requested, lastSuspendAnswerFalse int // lastSuspendAnswerFalse: count of false answers since the previous request
	lastAnswer := true
	doneAnswered := false
	deliveredWhileSuspended := map[int]bool{} // chunk ids handed over while the harness had suspension switched on
	sweptSuspendedChunk := false              // IsProcessed was asked about such a chunk and Suspend() was not consulted since
	bad := ""
	var events []string
	refills, suspWithCapacity := 0, false
	note := func(s string) {
		if len(events) < 200 {
			events = append(events, s)
		}
	}
	var wg sync.WaitGroup
	l := basepeerleecher.New(&wg, basepeerleecher.EpochDownloaderConfig{RecheckInterval: tick, DefaultChunkItemsNum: 10, DefaultChunkItemsSize: 1000, ParallelChunksDownload: par}, basepeerleecher.EpochDownloaderCallbacks{
		IsProcessed: func(id interface{}) bool {
			mu.Lock()
			defer mu.Unlock()
			if deliveredWhileSuspended[id.(int)] && suspended {
				sweptSuspendedChunk = true
			}
			if processed[id.(int)] {
				answeredTrue[id.(int)] = true
				return true
			}
			return false
		},
		RequestChunks: func(maxNum uint32, maxSize uint64, maxChunks uint32) error {
			mu.Lock()
			defer mu.Unlock()
			note(fmt.Sprintf("request %d", maxChunks))
			if doneAnswered && bad == "" {
				bad = "request-after-done"
			}
			if (lastSuspendAnswerFalse == 0 || lastAnswer) && bad == "" {
				bad = "request-while-suspended"
			}
			if sweptSuspendedChunk && suspended && bad == "" {
				// the routine run that swept a chunk delivered during the suspension went on to request without asking Suspend()
				bad = "request-while-suspended"
			}
			lastSuspendAnswerFalse = 0
			requested += int(maxChunks)
			if requested > len(answeredTrue)+par && bad == "" {
				bad = fmt.Sprintf("window-exceeded: %d chunks requested in total, %d reported processed, parallelism %d", requested, len(answeredTrue), par)
			}
			if requested > par {
				refills++
			}
			return nil
		},
		Suspend: func() bool {
			mu.Lock()
			defer mu.Unlock()
			lastAnswer = suspended
			sweptSuspendedChunk = false
			if !suspended {
				lastSuspendAnswerFalse++
			} else if requested < len(answeredTrue)+par {
				suspWithCapacity = true
			}
			return suspended
		},
		Done: func() bool {
			mu.Lock()
			defer mu.Unlock()
			if done {
				doneAnswered = true
			}
			return done
		},
	})
	if caseN%6 == 5 {
		// the download is already done when the session starts: not a single request may go out, and the loop ends
		mu.Lock()
		done = true
		mu.Unlock()
		l.Start()
		time.Sleep(30 * tick)
		mu.Lock()
		n := requested
		mu.Unlock()
		l.Stop()
		if n > 0 {
			return "request-after-done", map[string]interface{}{"case": caseN, "parallelism": par, "why": fmt.Sprintf("%d chunks requested although the download was done before the session started", n), "events": events}
		}
		c.Count("sessions_started_on_a_finished_download", 1)
		return "", nil
	}
	l.Start()
	delivered := 0
	var unprocessed []int
	steps := 20 + r.Intn(40)
	floods, floodID := 0, 100000
	for s := 0; s < steps; s++ {
		mu.Lock()
		req := requested
		mu.Unlock()
		switch r.Intn(6) {
		case 0, 1:
			for k := r.Intn(3); k >= 0 && delivered < req; k-- {
				delivered++
				unprocessed = append(unprocessed, delivered)
				mu.Lock()
				if suspended {
					deliveredWhileSuspended[delivered] = true
				}
				if r.Intn(2) == 0 {
					processed[delivered] = true // already processed when it arrives: the sweep frees its slot at once
				}
				mu.Unlock()
				_ = l.NotifyChunkReceived(delivered)
			}
		case 2, 3:
			if len(unprocessed) > 0 {
				k := r.Intn(len(unprocessed))
				mu.Lock()
				processed[unprocessed[k]] = true
				mu.Unlock()
				unprocessed = append(unprocessed[:k], unprocessed[k+1:]...)
			}
		case 4:
			mu.Lock()
			suspended = !suspended
			note(fmt.Sprintf("suspend=%v", suspended))
			mu.Unlock()
		case 5:
			if caseN%3 == 1 && floods < 2 {
				// a peer that sends more than it was asked for, while processing is slow: the chunk queue fills up and the
				// surplus is dropped - none of that may open the request window
				floods++
				nf := 2*par + 1 + r.Intn(3)
				note(fmt.Sprintf("peer floods %d unrequested chunks", nf))
				for k := 0; k < nf; k++ {
					floodID++
					unprocessed = append(unprocessed, floodID)
					_ = l.NotifyChunkReceived(floodID)
				}
			}
		}
		time.Sleep(time.Duration(r.Intn(3000)) * time.Microsecond)
	}
	desc := func() map[string]interface{} {
		return map[string]interface{}{"case": caseN, "parallelism": par, "tick": tick.String(), "events": events, "requested": requested, "delivered": delivered, "reported_processed": len(answeredTrue)}
	}
	// bounded progress: everything delivered gets processed, no suspension: the window must be refilled
	mu.Lock()
	suspended = false
	for _, id := range unprocessed {
		processed[id] = true
	}
	mu.Unlock()
	refilled := false
	for w := 0; w < 400; w++ {
		time.Sleep(tick)
		mu.Lock()
		ok := requested == len(answeredTrue)+par && (len(answeredTrue) == delivered || floods > 0)
		b := bad
		mu.Unlock()
		if ok || b != "" {
			refilled = true
			break
		}
	}
	mu.Lock()
	if bad != "" {
		d := desc()
		cls := bad
		if len(cls) > 15 && cls[:15] == "window-exceeded" {
			d["why"] = bad
			cls = "more-unprocessed-chunks-requested-than-parallelism"
		}
		mu.Unlock()
		l.Stop()
		return cls, d
	}
	if !refilled {
		d := desc()
		mu.Unlock()
		l.Stop()
		return "window-not-refilled", d
	}
	done = true
	mu.Unlock()
	stopped := false
	for w := 0; w < 1000; w++ {
		time.Sleep(tick)
		if l.Stopped() {
			stopped = true
			break
		}
	}
	mu.Lock()
	defer mu.Unlock()
	if bad != "" {
		return bad, desc()
	}
	if !stopped {
		l.Terminate()
		return "leecher-does-not-stop-after-done", desc()
	}
	c.Count("peer_leecher_requests", int64(requested))
	if suspWithCapacity && refills >= 3 {
		c.Nontrivial(ev.Hash("peer", caseN, requested))
	}
	if caseN < 2 {
		c.Sample(desc())
	}
	return "", nil
}

func c18Base(c *ev.Ctx, r *rand.Rand, caseN int) (string, map[string]interface{}) {
	var mu sync.Mutex
	rememberPeer := caseN%2 == 0 // an application whose OngoingSessionPeer keeps naming the last peer after the session ended
	lastPeer := ""
	session := "" // peer of the running session
	unregistering := map[string]bool{}
	unregistered := map[string]bool{} // UnregisterPeer returned and the peer was not registered again
	terminated := false
	shouldTerm := false
	bad := ""
	var events []string
	note := func(s string) {
		if len(events) < 300 {
			events = append(events, s)
		}
	}
	unregWhileRunning := false
	var d *basestreamleecher.BaseLeecher
	d = basestreamleecher.New(time.Millisecond, basestreamleecher.Callbacks{
		SelectSessionPeerCandidates: func() []string {
			var out []string
			for p := range d.Peers { // called with d.Mu held
				out = append(out, p)
			}
			sort.Strings(out)
			if caseN%2 == 1 {
				time.Sleep(time.Duration(50+caseN%150) * time.Microsecond) // a slow selection widens the window between the check and the start
			}
			return out
		},
		ShouldTerminateSession: func() bool {
			mu.Lock()
			defer mu.Unlock()
			return shouldTerm
		},
		StartSession: func(cands []string) {
			mu.Lock()
			defer mu.Unlock()
			if session != "" && bad == "" {
				bad = "session-started-while-another-is-running"
			}
			pick := cands[(caseN+len(events))%len(cands)]
			for _, p := range cands {
				if unregistering[p] {
					pick = p // the hostile choice
				}
			}
			if unregistered[pick] && bad == "" {
				bad = "session-started-with-unregistered-peer"
			}
			if terminated && bad == "" {
				bad = "session-started-after-terminate"
			}
			session = pick
			lastPeer = pick
			note("start " + pick)
		},
		TerminateSession: func() {
			mu.Lock()
			defer mu.Unlock()
			if session != "" {
				note("terminate " + session)
			}
			session = ""
		},
		OngoingSession: func() bool {
			mu.Lock()
			defer mu.Unlock()
			return session != ""
		},
		OngoingSessionPeer: func() string {
			mu.Lock()
			defer mu.Unlock()
			if session == "" && rememberPeer {
				return lastPeer
			}
			return session
		},
	})
	d.Start()
	var wg sync.WaitGroup
	seeds := []int64{r.Int63(), r.Int63(), r.Int63()}
	for g := 0; g < 3; g++ {
		wg.Add(1)
		go func(g int) {
			defer wg.Done()
			rr := rand.New(rand.NewSource(seeds[g]))
			names := []string{fmt.Sprintf("g%d-a", g), fmt.Sprintf("g%d-b", g)}
			for k := 0; k < 30; k++ {
				p := names[rr.Intn(2)]
				switch rr.Intn(5) {
				case 0, 1:
					mu.Lock()
					delete(unregistered, p)
					note("register " + p)
					mu.Unlock()
					_ = d.RegisterPeer(p)
				case 2, 3:
					mu.Lock()
					unregistering[p] = true
					if session == p {
						unregWhileRunning = true
					}
					mu.Unlock()
					_ = d.UnregisterPeer(p)
					mu.Lock()
					delete(unregistering, p)
					unregistered[p] = true
					note("unregistered " + p)
					if session == p && bad == "" {
						bad = "session-with-unregistered-peer-still-running"
					}
					mu.Unlock()
				default:
					mu.Lock()
					shouldTerm = !shouldTerm
					mu.Unlock()
				}
				time.Sleep(time.Duration(rr.Intn(1500)) * time.Microsecond)
			}
		}(g)
	}
	wg.Wait()
	d.Terminate()
	mu.Lock()
	terminated = true
	if session != "" && bad == "" {
		bad = "session-running-after-terminate"
	}
	mu.Unlock()
	_ = d.RegisterPeer("late")
	// after termination: the remaining entry points that run the routine must not start anything
	mu.Lock()
	lp := lastPeer
	mu.Unlock()
	if lp != "" {
		_ = d.UnregisterPeer(lp)
	}
	d.Mu.Lock()
	d.Routine()
	d.Mu.Unlock()
	time.Sleep(5 * time.Millisecond)
	d.Wg.Wait()
	mu.Lock()
	defer mu.Unlock()
	if bad != "" {
		return bad, map[string]interface{}{"case": caseN, "events": events}
	}
	if unregWhileRunning {
		c.Count("base_runs_with_unregister_of_the_running_peer", 1)
		c.Nontrivial(ev.Hash("base", caseN, len(events)))
	}
	c.Count("base_leecher_events", int64(len(events)))
	if caseN < 1 {
		c.Sample(map[string]interface{}{"kind": "base leecher", "events": events})
	}
	return "", nil
}
