package checks

import (
	"fmt"
	"sync"
	"sync/atomic"
	"time"

	"github.com/Fantom-foundation/lachesis-base/kvdb"
	"github.com/Fantom-foundation/lachesis-base/kvdb/flushable"
	"github.com/Fantom-foundation/lachesis-base/kvdb/memorydb"

	"verif/ev"
	"verif/memdisk"
)

// a producer whose batch writes take a while: the pool's flush then spends real time between one database and the next
type c28slowProducer struct {
	kvdb.DBProducer
	delay time.Duration
}

func (p c28slowProducer) OpenDB(name string) (kvdb.Store, error) {
	db, err := p.DBProducer.OpenDB(name)
	if err != nil {
		return nil, err
	}
	return &c28slowStore{Store: db, delay: p.delay}, nil
}

type c28slowStore struct {
	kvdb.Store
	delay time.Duration
}

func (s *c28slowStore) NewBatch() kvdb.Batch {
	return &c28slowBatch{Batch: s.Store.NewBatch(), delay: s.delay}
}

type c28slowBatch struct {
	kvdb.Batch
	delay time.Duration
}

func (b *c28slowBatch) Write() error {
	time.Sleep(b.delay)
	return b.Batch.Write()
}

// c28PoolFlushAtomic: readers of the underlying databases never look into a flush that is under way. One writer puts the
// same number i into every database and flushes, one step after the other (no write overlaps a flush); readers read the
// underlying databases one after the other in a seeded order. Whatever a reader sees first, what it sees later - in any
// database - cannot be older.
func c28PoolFlushAtomic(c *ev.Ctx, caseN int) {
	r := c.Rand("poolatomic", caseN)
	names := []string{"A", "B", "C"}[:2+caseN%2]
	prod := c28slowProducer{memdisk.New().Producer(), time.Duration(50+r.Intn(200)) * time.Microsecond}
	pool := flushable.NewSyncedPool(prod, []byte("\x00flushid"))
	dbs := map[string]kvdb.Store{}
	under := map[string]kvdb.Store{}
	for _, n := range names {
		db, err := pool.OpenDB(n)
		if err != nil {
			panic(err)
		}
		dbs[n] = db
	}
	if _, err := pool.Initialize(names, nil); err != nil {
		panic(err)
	}
	for _, n := range names {
		u, err := pool.GetUnderlying(n)
		if err != nil {
			c.Violation("get-underlying-fails", map[string]interface{}{"case": caseN, "err": err.Error()})
			return
		}
		under[n] = u
	}
	key := []byte("k")
	var done int32
	var mu sync.Mutex
	bad := ""
	var pairs int64
	var wg sync.WaitGroup
	readers := 3
	seeds := make([]int64, readers)
	for i := range seeds {
		seeds[i] = r.Int63()
	}
	for rd := 0; rd < readers; rd++ {
		wg.Add(1)
		go func(rd int) {
			defer wg.Done()
			rr := c.Rand("poolatomic-reader", caseN*10+rd)
			for atomic.LoadInt32(&done) == 0 {
				last, lastDB := -1, ""
				for _, k := range rr.Perm(len(names)) {
					b, err := under[names[k]].Get(key)
					v := 0
					if err == nil && b != nil {
						fmt.Sscan(string(b), &v)
					}
					if v < last {
						mu.Lock()
						if bad == "" {
							bad = fmt.Sprintf("a reader saw flush #%d in the underlying database %s and, afterwards, only flush #%d in %s", last, lastDB, v, names[k])
						}
						mu.Unlock()
						return
					}
					last, lastDB = v, names[k]
					atomic.AddInt64(&pairs, 1)
				}
			}
		}(rd)
	}
	steps := 12 + r.Intn(10)
	for i := 1; i <= steps; i++ {
		for _, n := range names {
			_ = dbs[n].Put(key, []byte(fmt.Sprint(i)))
		}
		if err := pool.Flush([]byte{byte(i), byte(caseN)}); err != nil {
			atomic.StoreInt32(&done, 1)
			wg.Wait()
			c.Violation("flush-fails", map[string]interface{}{"case": caseN, "err": err.Error()})
			return
		}
	}
	atomic.StoreInt32(&done, 1)
	wg.Wait()
	c.Eval(1)
	if bad != "" {
		c.Violation("history-not-linearizable:synced_pool", map[string]interface{}{"case": caseN, "databases": names, "flushes": steps, "why": bad,
			"scenario": "one writer: put i into every database, Flush, repeat; readers read the underlying databases one after the other"})
		return
	}
	c.Count("pool_flushes_watched_by_underlying_readers", int64(steps))
	c.Count("pool_underlying_reads_during_the_run", atomic.LoadInt64(&pairs))
	c.Nontrivial(ev.Hash("poolatomic", caseN))
}

// c28PoolDropsDuringFlush: databases are closed and dropped while the pool is flushing. A drop that arrives during flush N
// is carried out by a later flush: after everything has stopped and two more flushes went through, no dropped database
// is left on the disk.
func c28PoolDropsDuringFlush(c *ev.Ctx, caseN int) {
	r := c.Rand("pooldrops", caseN)
	disk := memdisk.New()
	prod := c28slowProducer{disk.Producer(), time.Duration(30+r.Intn(150)) * time.Microsecond}
	pool := flushable.NewSyncedPool(prod, []byte("\x00flushid"))
	main, err := pool.OpenDB("main")
	if err != nil {
		panic(err)
	}
	if _, err := pool.Initialize([]string{"main"}, nil); err != nil {
		panic(err)
	}
	var wg sync.WaitGroup
	var flushErr atomic.Value
	wg.Add(1)
	go func() {
		defer wg.Done()
		for i := 1; i <= 14; i++ {
			_ = main.Put([]byte("k"), []byte(fmt.Sprint(i)))
			if err := pool.Flush([]byte{byte(i), byte(caseN), 1}); err != nil {
				flushErr.Store(err.Error())
				return
			}
		}
	}()
	var dropped []string
	wg.Add(1)
	seed := r.Int63()
	go func() {
		defer wg.Done()
		rr := c.Rand("pooldrops-dropper", int(seed%1000000))
		for i := 0; i < 10; i++ {
			name := fmt.Sprintf("tmp%d", i)
			db, err := pool.OpenDB(name)
			if err != nil {
				return
			}
			_ = db.Put([]byte("x"), []byte(name))
			time.Sleep(time.Duration(rr.Intn(400)) * time.Microsecond) // some of these get flushed to the disk meanwhile
			_ = db.Close()
			db.Drop()
			dropped = append(dropped, name)
		}
	}()
	wg.Wait()
	if e := flushErr.Load(); e != nil {
		c.Violation("flush-fails", map[string]interface{}{"case": caseN, "err": e})
		return
	}
	for k := 0; k < 2; k++ {
		if err := pool.Flush([]byte{byte(100 + k), byte(caseN), 2}); err != nil {
			c.Violation("flush-fails", map[string]interface{}{"case": caseN, "err": err.Error()})
			return
		}
	}
	c.Eval(1)
	left := map[string]bool{}
	for _, n := range disk.Producer().Names() {
		left[n] = true
	}
	for _, n := range dropped {
		if left[n] {
			c.Violation("history-not-linearizable:synced_pool", map[string]interface{}{"case": caseN, "why": fmt.Sprintf("database %s was closed and dropped (while the pool may have been flushing); two complete flushes later it is still on the disk", n), "dropped": dropped, "on_disk": fmt.Sprint(disk.Producer().Names())})
			return
		}
	}
	c.Count("pool_drops_issued_while_flushes_ran", int64(len(dropped)))
	c.Nontrivial(ev.Hash("pooldrops", caseN))
}

// c28BigBatches: a batch is one step, however long it is. Two writers write batches of 600 puts (key i -> the writer's tag of
// the round); a reader takes snapshots. Every snapshot, and the final state, shows one tag on all keys.
func c28BigBatches(c *ev.Ctx, caseN int) {
	store := flushable.Wrap(memorydb.New())
	const keys = 600
	key := func(i int) []byte { return []byte(fmt.Sprintf("k%03d", i)) }
	var stop int32
	var mu sync.Mutex
	bad := ""
	var wg sync.WaitGroup
	for w := 0; w < 2; w++ {
		wg.Add(1)
		go func(w int) {
			defer wg.Done()
			for round := 0; round < 12; round++ {
				b := store.NewBatch()
				tag := []byte(fmt.Sprintf("w%d-r%02d", w, round))
				for i := 0; i < keys; i++ {
					_ = b.Put(key(i), tag)
				}
				_ = b.Write()
			}
		}(w)
	}
	var rwg sync.WaitGroup
	rwg.Add(1)
	var snaps int64
	go func() {
		defer rwg.Done()
		for atomic.LoadInt32(&stop) == 0 {
			sn, err := store.GetSnapshot()
			if err != nil {
				continue
			}
			var first []byte
			for _, i := range []int{0, 1, 255, 256, 511, 512, 513, 599} {
				v, _ := sn.Get(key(i))
				if i == 0 {
					first = v
				} else if string(v) != string(first) {
					mu.Lock()
					if bad == "" {
						bad = fmt.Sprintf("a snapshot shows %q at key 0 and %q at key %d: it caught a batch half-written", first, v, i)
					}
					mu.Unlock()
				}
			}
			sn.Release()
			atomic.AddInt64(&snaps, 1)
		}
	}()
	wg.Wait()
	atomic.StoreInt32(&stop, 1)
	rwg.Wait()
	c.Eval(1)
	if bad == "" {
		first, _ := store.Get(key(0))
		for i := 1; i < keys; i++ {
			if v, _ := store.Get(key(i)); string(v) != string(first) {
				bad = fmt.Sprintf("after two writers wrote whole batches, key 0 holds %q and key %d holds %q", first, i, v)
				break
			}
		}
	}
	if bad != "" {
		c.Violation("history-not-linearizable:flushable", map[string]interface{}{"case": caseN, "why": bad, "scenario": "two writers, batches of 600 puts each, one snapshot reader"})
		return
	}
	c.Count("big_batch_snapshots_checked", atomic.LoadInt64(&snaps))
	c.Nontrivial(ev.Hash("bigbatch", caseN))
}
