package checks

import (
	"fmt"
	"sync"
	"sync/atomic"
	"time"

	"github.com/Fantom-foundation/lachesis-base/kvdb"
	"github.com/Fantom-foundation/lachesis-base/kvdb/flushable"

	"verif/ev"
	"verif/memdisk"
)

// a producer whose batch writes take a while: the pool's flush then spends real time between one database and the next
type c28slowProducer struct {
	kvdb.DBProducer
	delay time.Duration
}

func (p c28slowProducer) OpenDB(name string) (kvdb.Store, error) {
	db, err := p.DBProducer.OpenDB(name)
	if err != nil {
		return nil, err
	}
	return &c28slowStore{Store: db, delay: p.delay}, nil
}

type c28slowStore struct {
	kvdb.Store
	delay time.Duration
}

func (s *c28slowStore) NewBatch() kvdb.Batch {
	return &c28slowBatch{Batch: s.Store.NewBatch(), delay: s.delay}
}

type c28slowBatch struct {
	kvdb.Batch
	delay time.Duration
}

func (b *c28slowBatch) Write() error {
	time.Sleep(b.delay)
	return b.Batch.Write()
}

// c28PoolFlushAtomic: readers of the underlying databases never look into a flush that is under way. One writer puts the
// same number i into every database and flushes, one step after the other (no write overlaps a flush); readers read the
// underlying databases one after the other in a seeded order. Whatever a reader sees first, what it sees later - in any
// database - cannot be older.
func c28PoolFlushAtomic(c *ev.Ctx, caseN int) {
	r := c.Rand("poolatomic", caseN)
	names := []string{"A", "B", "C"}[:2+caseN%2]
	prod := c28slowProducer{memdisk.New().Producer(), time.Duration(50+r.Intn(200)) * time.Microsecond}
	pool := flushable.NewSyncedPool(prod, []byte("\x00flushid"))
	dbs := map[string]kvdb.Store{}
	under := map[string]kvdb.Store{}
	for _, n := range names {
		db, err := pool.OpenDB(n)
		if err != nil {
			panic(err)
		}
		dbs[n] = db
	}
	if _, err := pool.Initialize(names, nil); err != nil {
		panic(err)
	}
	for _, n := range names {
		u, err := pool.GetUnderlying(n)
		if err != nil {
			c.Violation("get-underlying-fails", map[string]interface{}{"case": caseN, "err": err.Error()})
			return
		}
		under[n] = u
	}
	key := []byte("k")
	var done int32
	var mu sync.Mutex
	bad := ""
	var pairs int64
	var wg sync.WaitGroup
	readers := 3
	seeds := make([]int64, readers)
	for i := range seeds {
		seeds[i] = r.Int63()
	}
	for rd := 0; rd < readers; rd++ {
		wg.Add(1)
		go func(rd int) {
			defer wg.Done()
			rr := c.Rand("poolatomic-reader", caseN*10+rd)
			for atomic.LoadInt32(&done) == 0 {
				last, lastDB := -1, ""
				for _, k := range rr.Perm(len(names)) {
					b, err := under[names[k]].Get(key)
					v := 0
					if err == nil && b != nil {
						fmt.Sscan(string(b), &v)
					}
					if v < last {
						mu.Lock()
						if bad == "" {
							bad = fmt.Sprintf("a reader saw flush #%d in the underlying database %s and, afterwards, only flush #%d in %s", last, lastDB, v, names[k])
						}
						mu.Unlock()
						return
					}
					last, lastDB = v, names[k]
					atomic.AddInt64(&pairs, 1)
				}
			}
		}(rd)
	}
	steps := 12 + r.Intn(10)
	for i := 1; i <= steps; i++ {
		for _, n := range names {
			_ = dbs[n].Put(key, []byte(fmt.Sprint(i)))
		}
		if err := pool.Flush([]byte{byte(i), byte(caseN)}); err != nil {
			atomic.StoreInt32(&done, 1)
			wg.Wait()
			c.Violation("flush-fails", map[string]interface{}{"case": caseN, "err": err.Error()})
			return
		}
	}
	atomic.StoreInt32(&done, 1)
	wg.Wait()
	c.Eval(1)
	if bad != "" {
		c.Violation("history-not-linearizable:synced_pool", map[string]interface{}{"case": caseN, "databases": names, "flushes": steps, "why": bad,
			"scenario": "one writer: put i into every database, Flush, repeat; readers read the underlying databases one after the other"})
		return
	}
	c.Count("pool_flushes_watched_by_underlying_readers", int64(steps))
	c.Count("pool_underlying_reads_during_the_run", atomic.LoadInt64(&pairs))
	c.Nontrivial(ev.Hash("poolatomic", caseN))
}
