// Package checks holds one file per property; each registers its run function here.
package checks

import "verif/ev"

type Check struct {
	ID    string
	Level string // MANIFEST level_claimed.category
	Run   func(c *ev.Ctx)
}

var Registry = map[string]Check{}

func register(id, level string, run func(c *ev.Ctx)) {
	Registry[id] = Check{ID: id, Level: level, Run: run}
}
