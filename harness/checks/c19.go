package checks

import (
	"fmt"
	"math/rand"

	"github.com/Fantom-foundation/lachesis-base/emitter/ancestor"
	"github.com/Fantom-foundation/lachesis-base/hash"

	"verif/ev"
)

// C19 Parent selection is well-formed.
func init() { register("C19", "exploration", runC19) }

type c19scripted struct {
	r     *rand.Rand
	calls *int
	bad   *string
	seenP hash.Events
}

// a legal scripted strategy: returns any valid index, and records what it was shown
func (s *c19scripted) Choose(existing hash.Events, options hash.Events) int {
	*s.calls++
	if len(options) == 0 {
		*s.bad = "strategy called with no options"
		return 0
	}
	set := map[hash.Event]bool{}
	for _, o := range options {
		if set[o] {
			*s.bad = "strategy shown duplicate options"
		}
		set[o] = true
	}
	for _, p := range existing {
		if set[p] {
			*s.bad = "strategy offered an option that is already a parent"
		}
	}
	return s.r.Intn(len(options))
}

func runC19(c *ev.Ctx) {
	c.Rule = "random existing-parent lists (0..5 distinct events), option lists (0..10 entries with duplicates and overlaps with the existing parents), strategy lists of 0..6 strategies mixing MetricStrategy (metric tables with ties, zeros and values >= 2^63), RandomStrategy and a scripted legal strategy; " +
		"oracle = the clauses of the statement: result starts with the existing parents in order; then at most one new parent per strategy; no parent repeated; every new parent was offered; number of new parents = min(#strategies, #distinct options not already parents); strategies are only ever shown non-empty, duplicate-free options that exclude current parents; a MetricStrategy's pick has the maximal metric among the options it was shown. " +
		"The existing parents are handed over as a prefix of a larger array whose tail must stay untouched, and a second selection from the same base must not change the first result; every fourth case has the all-zero hash in the pool. The caller's options slice must come back unchanged. Plus direct calls of MetricStrategy.Choose with options overlapping the existing parents, and selections whose two arguments share one array (heads[:k], heads). Plus reuse: one MetricStrategy object serves 2-4 selections in a row while the metric of the same events changes in between; each pick is maximal under the metric at that selection. " +
		"non-trivial = distinct inputs with >=2 existing parents of which one is also offered as option, >=2 strategies and a metric tie or a metric >= 2^63"
	c.Assumptions = []string{"existing parents are distinct events (they are parents of one event)", "metric function is deterministic during one ChooseParents call (it may change between calls)"}
	n := c.Pick(300000, 10000000)
	c.Parallel(64, 0, func(w int) {
		r := c.Rand("case", w)
		for i := 0; i < n/64; i++ {
			c19Case(c, r, w*1000000+i)
			if i%8 == 0 {
				c19Reuse(c, r, w*1000000+i)
				c19Direct(c, r, w*1000000+i)
			}
		}
	})
}

func c19Case(c *ev.Ctx, r *rand.Rand, caseN int) {
	pool := make(hash.Events, 12)
	for i := range pool {
		pool[i] = hash.Event{byte(i + 1), byte(caseN), byte(caseN >> 8)}
	}
	if caseN%4 == 0 {
		pool[0] = hash.ZeroEvent // the all-zero hash is an event ID like any other
	}
	perm := r.Perm(len(pool))
	nEx := r.Intn(6)
	var existing hash.Events
	for _, p := range perm[:nEx] {
		existing = append(existing, pool[p])
	}
	var options hash.Events
	for i, k := 0, r.Intn(11); i < k; i++ {
		options = append(options, pool[r.Intn(len(pool))])
	}
	metric := map[hash.Event]ancestor.Metric{}
	big := false
	for _, p := range pool {
		switch r.Intn(6) {
		case 0:
			metric[p] = 0
		case 1:
			metric[p] = ancestor.Metric(1<<63 + uint64(r.Intn(3)))
			big = true
		case 2:
			metric[p] = ancestor.Metric(^uint64(0))
			big = true
		default:
			metric[p] = ancestor.Metric(r.Intn(4))
		}
	}
	calls, bad := 0, ""
	var strategies []ancestor.SearchStrategy
	type shown struct {
		opts hash.Events
	}
	var metricShown []hash.Events // options shown to each metric strategy call, in order
	var metricIdx []int           // position in strategies
	nSt := r.Intn(7)
	for i := 0; i < nSt; i++ {
		switch r.Intn(3) {
		case 0:
			pos := i
			st := ancestor.NewMetricStrategy(func(h hash.Event) ancestor.Metric { return metric[h] })
			strategies = append(strategies, c19spy{st, func(ex, o hash.Events) {
				metricShown = append(metricShown, append(hash.Events{}, o...))
				metricIdx = append(metricIdx, pos)
			}})
		case 1:
			strategies = append(strategies, ancestor.NewRandomStrategy(rand.New(rand.NewSource(r.Int63()))))
		default:
			strategies = append(strategies, &c19scripted{r: r, calls: &calls, bad: &bad})
		}
	}
	desc := func() map[string]interface{} {
		return map[string]interface{}{"case": caseN, "existing": fmt.Sprint(existing), "options": fmt.Sprint(options), "strategies": nSt, "metric": fmt.Sprint(metric)}
	}
	var res hash.Events
	// the caller's slice of existing parents is a prefix of a larger array (heads[:k]); what lies behind it is the caller's
	sentinel := hash.Event{0xEE, 0xEE, byte(caseN)}
	base := make(hash.Events, len(existing), len(existing)+8)
	copy(base, existing)
	tail := base[len(existing):cap(base)]
	for k := range tail {
		tail[k] = sentinel
	}
	optArg := append(hash.Events{}, options...)
	if p, _ := ev.Try(func() {
		res = ancestor.ChooseParents(base, optArg, strategies)
	}); p != nil {
		m := desc()
		m["panic"] = fmt.Sprint(p)
		c.Violation("choose-parents-panics", m)
		return
	}
	c.Eval(1)
	fail := func(class, why string) {
		m := desc()
		m["result"], m["why"] = fmt.Sprint(res), why
		c.Violation(class, m)
	}
	for k := range options {
		if optArg[k] != options[k] {
			fail("parent-not-offered", fmt.Sprintf("the selection rewrote the caller's options slice (position %d): what was offered is no longer what the caller holds", k))
			return
		}
	}
	for k := range tail {
		if tail[k] != sentinel {
			fail("parent-not-offered", fmt.Sprintf("the selection wrote into the caller's array behind the existing parents (slot +%d)", k))
			return
		}
	}
	if nSt > 0 && len(options) > 0 {
		// a second selection from the same base must not change the first result
		first := append(hash.Events{}, res...)
		var single []ancestor.SearchStrategy
		single = append(single, ancestor.NewRandomStrategy(rand.New(rand.NewSource(int64(caseN)))))
		rev := make(hash.Events, 0, len(options))
		for k := len(options) - 1; k >= 0; k-- {
			rev = append(rev, options[k])
		}
		if p, _ := ev.Try(func() { ancestor.ChooseParents(base, rev, single) }); p != nil {
			fail("choose-parents-panics", fmt.Sprint(p))
			return
		}
		for k := range first {
			if res[k] != first[k] {
				fail("parent-not-offered", fmt.Sprintf("an earlier result changed at position %d when the same existing parents were used for another selection", k))
				return
			}
		}
		c.Count("second_selections_from_the_same_base", 1)
	}
	if len(res) < len(existing) {
		fail("existing-parents-not-first", "result shorter than existing")
		return
	}
	for i, p := range existing {
		if res[i] != p {
			fail("existing-parents-not-first", fmt.Sprintf("position %d", i))
			return
		}
	}
	added := res[len(existing):]
	if len(added) > nSt {
		fail("more-than-one-new-parent-per-strategy", "")
		return
	}
	seen := map[hash.Event]bool{}
	for _, p := range res {
		if seen[p] {
			fail("parent-repeated", p.String())
			return
		}
		seen[p] = true
	}
	offered := map[hash.Event]bool{}
	for _, o := range options {
		offered[o] = true
	}
	avail := 0
	exSet := map[hash.Event]bool{}
	for _, p := range existing {
		exSet[p] = true
	}
	for o := range offered {
		if !exSet[o] {
			avail++
		}
	}
	for _, p := range added {
		if !offered[p] {
			fail("parent-not-offered", p.String())
			return
		}
	}
	want := nSt
	if avail < want {
		want = avail
	}
	if len(added) != want {
		fail("stopped-early-or-late", fmt.Sprintf("added %d, want min(strategies=%d, available=%d)", len(added), nSt, avail))
		return
	}
	if bad != "" {
		fail("strategy-shown-illegal-options", bad)
		return
	}
	// metric strategies picked a maximal option among what they were shown
	tie := false
	for k, opts := range metricShown {
		pos := metricIdx[k]
		if pos >= len(added) {
			continue
		}
		picked := added[pos]
		var best ancestor.Metric
		cnt := 0
		for _, o := range opts {
			if metric[o] > best {
				best = metric[o]
			}
		}
		for _, o := range opts {
			if metric[o] == best {
				cnt++
			}
		}
		if cnt > 1 {
			tie = true
		}
		c.Count("metric_picks_checked", 1)
		if metric[picked] != best {
			fail("metric-strategy-not-maximal", fmt.Sprintf("strategy %d picked metric %d, maximal shown is %d", pos, metric[picked], best))
			return
		}
	}
	overlap := false
	for _, o := range options {
		if exSet[o] {
			overlap = true
		}
	}
	if nEx >= 2 && overlap && nSt >= 2 && (tie || big) {
		c.Nontrivial(ev.Hash(fmt.Sprint(existing), fmt.Sprint(options), nSt, fmt.Sprint(metric)))
	}
	if c.WantSample() {
		m := desc()
		m["result"] = fmt.Sprint(res)
		c.Sample(m)
	}
}

// c19spy wraps a real strategy to record what it was shown (the choice itself is the real one).
type c19spy struct {
	inner ancestor.SearchStrategy
	note  func(existing, options hash.Events)
}

func (s c19spy) Choose(existing hash.Events, options hash.Events) int {
	s.note(existing, options)
	return s.inner.Choose(existing, options)
}
