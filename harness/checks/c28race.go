package checks

import (
	"fmt"
	"math/rand"
	"sync"
	"time"

	"github.com/Fantom-foundation/lachesis-base/gossip/dagordering"
	"github.com/Fantom-foundation/lachesis-base/hash"
	"github.com/Fantom-foundation/lachesis-base/inter/dag"
	"github.com/Fantom-foundation/lachesis-base/inter/idx"
	"github.com/Fantom-foundation/lachesis-base/kvdb"
	"github.com/Fantom-foundation/lachesis-base/kvdb/flushable"
	"github.com/Fantom-foundation/lachesis-base/kvdb/memorydb"
	"github.com/Fantom-foundation/lachesis-base/utils/datasemaphore"
	"github.com/Fantom-foundation/lachesis-base/utils/wlru"

	"verif/cons"
	"verif/ev"
	"verif/memdisk"
)

// C28race is the workload half that runs inside the -race build of vcheck (child process of the C28 check).
// It only drives the components; the verdict comes from the race detector's log, parsed by the parent.
func init() { register("C28race", "exploration", runC28race) }

type c28sizer interface {
	NotFlushedPairs() int
	NotFlushedSizeEst() int
}

func c28kv(r *rand.Rand, db kvdb.Store, n int, sizer c28sizer) {
	keys := [][]byte{[]byte("a"), []byte("b"), []byte("ab"), {0xff}, []byte("c")}
	for i := 0; i < n; i++ {
		k := keys[r.Intn(len(keys))]
		switch r.Intn(12) {
		case 0, 1, 2:
			_ = db.Put(k, []byte{byte(i)})
		case 3:
			_ = db.Delete(k)
		case 4:
			_, _ = db.Get(k)
		case 5:
			_, _ = db.Has(k)
		case 6:
			it := db.NewIterator(nil, nil)
			for it.Next() {
				_ = it.Key()
			}
			it.Release()
		case 7:
			b := db.NewBatch()
			_ = b.Put(k, []byte{1})
			_ = b.Delete(keys[r.Intn(len(keys))])
			_ = b.Write()
		case 8:
			if s, err := db.GetSnapshot(); err == nil {
				_, _ = s.Get(k)
				s.Release()
			}
		case 9, 10:
			if sizer != nil {
				_ = sizer.NotFlushedPairs()
				_ = sizer.NotFlushedSizeEst()
			}
		default:
			_, _ = db.Stat("x")
		}
	}
}

func runC28race(c *ev.Ctx) {
	rounds := c.Pick(6, 40)
	for round := 0; round < rounds; round++ {
		r := c.Rand("race", round)
		g := 2 + r.Intn(7)
		seeds := make([]int64, g)
		for i := range seeds {
			seeds[i] = r.Int63()
		}
		par := func(f func(w int, r *rand.Rand)) {
			var wg sync.WaitGroup
			for w := 0; w < g; w++ {
				wg.Add(1)
				go func(w int) {
					defer wg.Done()
					f(w, rand.New(rand.NewSource(seeds[w])))
				}(w)
			}
			wg.Wait()
		}
		// ---- flushable
		fl := flushable.Wrap(memorydb.New())
		par(func(w int, r *rand.Rand) {
			for i := 0; i < 30; i++ {
				c28kv(r, fl, 10, fl)
				switch r.Intn(6) {
				case 0:
					_ = fl.Flush()
				case 1:
					fl.DropNotFlushed()
				}
			}
		})
		c.Count("race_workloads_flushable", 1)
		// ---- lazy flushable
		lz := flushable.NewLazy(func() (kvdb.Store, error) { return memorydb.New(), nil }, func() {})
		par(func(w int, r *rand.Rand) {
			for i := 0; i < 20; i++ {
				c28kv(r, lz, 10, lz)
				if r.Intn(5) == 0 {
					_ = lz.Flush()
				}
			}
		})
		c.Count("race_workloads_lazy_flushable", 1)
		// ---- synced pool
		pool := flushable.NewSyncedPool(memdisk.New().Producer(), []byte("\x00flushid"))
		par(func(w int, r *rand.Rand) {
			for i := 0; i < 20; i++ {
				name := []string{"A", "B", "C"}[r.Intn(3)]
				db, err := pool.OpenDB(name)
				if err != nil {
					continue
				}
				c28kv(r, db, 8, nil)
				switch r.Intn(8) {
				case 0:
					_ = pool.Flush([]byte{byte(i), byte(w)})
				case 1:
					_ = pool.NotFlushedSizeEst()
				case 2:
					if u, err := pool.GetUnderlying(name); err == nil {
						_, _ = u.Get([]byte("a"))
						it := u.NewIterator(nil, nil)
						for it.Next() {
						}
						it.Release()
					}
				case 3:
					_ = pool.Names()
				}
			}
		})
		c.Count("race_workloads_synced_pool", 1)
		// ---- wlru
		cache, _ := wlru.NewWithEvict(8, 5, func(k, v interface{}) {})
		par(func(w int, r *rand.Rand) {
			for i := 0; i < 300; i++ {
				k := r.Intn(7)
				switch r.Intn(16) {
				case 0, 1:
					cache.Add(k, i, uint(r.Intn(5)))
				case 2:
					cache.Get(k)
				case 3:
					cache.Contains(k)
				case 4:
					cache.Peek(k)
				case 5:
					cache.ContainsOrAdd(k, i, uint(r.Intn(5)))
				case 6:
					cache.PeekOrAdd(k, i, uint(r.Intn(5)))
				case 7:
					cache.Remove(k)
				case 8:
					cache.Resize(uint(4+r.Intn(6)), 3+r.Intn(4))
				case 9:
					cache.RemoveOldest()
				case 10:
					cache.GetOldest()
				case 11:
					cache.Keys()
				case 12:
					cache.Len()
				case 13:
					cache.Weight()
				case 14:
					cache.Total()
				default:
					if r.Intn(10) == 0 {
						cache.Purge()
					}
				}
			}
		})
		c.Count("race_workloads_wlru", 1)
		// ---- semaphore
		sem := datasemaphore.New(dag.Metric{Num: 5, Size: 100}, func(a, b, cc dag.Metric) {})
		par(func(w int, r *rand.Rand) {
			for i := 0; i < 200; i++ {
				m := dag.Metric{Num: idx.Event(r.Intn(4)), Size: uint64(r.Intn(60))}
				switch r.Intn(6) {
				case 0, 1:
					if sem.TryAcquire(m) {
						sem.Release(m)
					}
				case 2:
					if sem.Acquire(m, time.Duration(r.Intn(300))*time.Microsecond) {
						sem.Release(m)
					}
				case 3:
					sem.Processing()
				case 4:
					sem.Available()
				default:
					if r.Intn(20) == 0 {
						sem.Release(m)
					}
				}
			}
		})
		sem.Terminate()
		c.Count("race_workloads_semaphore", 1)
		// ---- ordering buffer
		plans := cons.RandomPlans(r, 1, 4, false, cons.CheatNone)
		d, _, err := cons.Generate(r, &cons.GenCfg{Plans: plans, Plain: true, EventsPer: 40, MinParents: 1, MaxParents: 3})
		if err != nil {
			panic(err)
		}
		evs := d.Epochs[0].Events
		var cmu sync.Mutex
		connected := map[hash.Event]dag.Event{}
		buf := dagordering.New(dag.Metric{Num: idx.Event(5 + r.Intn(40)), Size: 1 << 20}, dagordering.Callback{
			Process:  func(e dag.Event) error { cmu.Lock(); connected[e.ID()] = e; cmu.Unlock(); return nil },
			Released: func(e dag.Event, peer string, err error) {},
			Get: func(id hash.Event) dag.Event {
				cmu.Lock()
				defer cmu.Unlock()
				if e, ok := connected[id]; ok {
					return e
				}
				return nil
			},
			Exists: func(id hash.Event) bool { cmu.Lock(); defer cmu.Unlock(); return connected[id] != nil },
			Check:  func(e dag.Event, parents dag.Events) error { return nil },
		})
		par(func(w int, r *rand.Rand) {
			for _, k := range r.Perm(len(evs)) {
				switch r.Intn(6) {
				case 0:
					buf.IsBuffered(evs[k].ID())
				case 1:
					buf.Total()
				case 2:
					if r.Intn(10) == 0 {
						buf.Clear()
					}
				default:
					buf.PushEvent(evs[k], fmt.Sprint("peer", w))
				}
			}
		})
		c.Count("race_workloads_ordering_buffer", 1)
		c.Eval(1)
	}
}
