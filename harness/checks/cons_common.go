package checks

import (
	"fmt"
	"math/rand"

	"verif/cons"
	"verif/ev"
)

// Shared campaign for the properties decided by driving real consensus instances over generated DAGs in
// several parents-first orders with the reference model E1 in lock-step (C01, C02, C03, C10).

type campOpts struct {
	nDAGs      int
	orders     int
	maxN       int
	minEvents  int
	maxEvents  int
	maxEpochs  int
	cheat      cons.CheatMode
	probeRoots bool
	// which discrepancy kinds count as violations of the property being checked
	mine map[string]bool
	// compare block logs between instances (C01)
	pairwise bool
	// non-triviality of one DAG's set of traces
	nontrivial func(d *cons.DAG, traces []*cons.Trace) bool
	// DCrit / rejection are expected when cheaters hold >= 1/3: only count them below one third
	critOnlyBelowThird bool
	// optional: replaces the generated configuration of DAG i (nil result = keep it)
	tweak func(r *rand.Rand, i int, cfg *cons.GenCfg) *cons.GenCfg
}

func cheatersBelowThird(p *cons.EpochPlan) bool {
	var total, cw uint64
	for i, w := range p.Weights {
		total += w
		if p.Cheaters[i] {
			cw += w
		}
	}
	return cw*3 < total
}

func dagAllBelowThird(d *cons.DAG) bool {
	for _, p := range d.Cfg.Plans {
		if !cheatersBelowThird(p) {
			return false
		}
	}
	return true
}

func genCfgFor(r *rand.Rand, i int, o *campOpts) *cons.GenCfg {
	tie := i%3 == 2
	nEp := 1 + r.Intn(o.maxEpochs)
	plans := cons.RandomPlans(r, nEp, o.maxN, tie, o.cheat)
	sleeperRegime := i%4 == 1
	if sleeperRegime {
		// small sets where the canonical-first validator sleeps and catches up with multi-frame jumps: this is
		// where one root gets elected Atropos of two consecutive frames (a block that delivers nothing)
		plans = cons.RandomPlans(r, nEp, -4, false, cons.CheatNone)
		for _, p := range plans {
			for k := range p.Lag {
				p.Lag[k] = 0
			}
		}
	}
	n := len(plans[0].IDs)
	cfg := &cons.GenCfg{Plans: plans, TieHeavy: tie,
		EventsPer:  minI(o.maxEvents, maxI(o.minEvents, n*(15+r.Intn(50)))),
		MaxParents: 2 + r.Intn(n+1), MinParents: 1, ForkProb: 0.03 + r.Float64()*0.25}
	if tie {
		cfg.MinParents = 1
		cfg.MaxParents = 3
	}
	if r.Intn(3) == 0 {
		cfg.PartProb = 0.02
	}
	if r.Intn(5) == 0 {
		cfg.MinParents = 0 // some events link to nobody
	}
	cfg.Sleeper = i%4 == 1
	if sleeperRegime {
		cfg.MinParents, cfg.MaxParents, cfg.PartProb = 1, 3, 0
		cfg.EventsPer = minI(o.maxEvents, 40*n)
	}
	cfg.LowEntropyIDs = i%8 == 3 // event IDs that agree in epoch, Lamport and the first 8 of their 24 bytes
	if i%8 == 6 && n >= 4 {
		// polarised regime: long leaky partitions into two groups - frames keep advancing on bare quorums (own group plus a
		// few cross links) while the two groups see different first-round roots, so later roots count split votes over
		// partial observations
		cfg.PartProb, cfg.Leak = 0.08, 0.10+r.Float64()*0.2
		cfg.MinParents, cfg.MaxParents = 1, 2+r.Intn(2)
		for _, p := range plans {
			for k := range p.Lag {
				p.Lag[k] = 0
			}
		}
	}
	return cfg
}

func describeDAG(d *cons.DAG) map[string]interface{} {
	var eps []map[string]interface{}
	for _, ed := range d.Epochs {
		var ch []int
		for k := range ed.Plan.Cheaters {
			ch = append(ch, k)
		}
		eps = append(eps, map[string]interface{}{"epoch": ed.Plan.Epoch, "ids": ed.Plan.IDs, "weights": ed.Plan.Weights,
			"cheater_idx": ch, "events": len(ed.Events), "seal_at_frame": ed.Plan.SealAt, "sealed": ed.Sealed})
	}
	return map[string]interface{}{"epochs": eps, "forks": d.Forks, "max_parents": d.Cfg.MaxParents, "tie_heavy": d.Cfg.TieHeavy, "fingerprint": fmt.Sprintf("%x", d.FP)}
}

func runCampaign(c *ev.Ctx, o *campOpts) {
	c.Parallel(o.nDAGs, 0, func(i int) {
		r := c.Rand("dag", i)
		cfg := genCfgFor(r, i, o)
		if o.tweak != nil {
			if t := o.tweak(r, i, cfg); t != nil {
				cfg = t
			}
		}
		d, g, err := cons.Generate(r, cfg)
		below := d != nil && dagAllBelowThird(d)
		if err != nil {
			if d == nil {
				panic(err)
			}
			if d.NumEvents() == 0 && d.Rejected == nil && below && o.mine["built-event-rejected"] {
				c.Violation("build-failed", map[string]interface{}{"case": i, "error": err.Error()})
				return
			}
			switch {
			case !below:
				c.Count("generator_stopped_early_byzantine", 1)
			case o.mine["built-event-rejected"]:
				c.Violation("built-event-rejected", map[string]interface{}{"case": i, "error": err.Error(), "dag": describeDAG(d)})
				return
			default:
				c.Count("other_property_discrepancy_built-event-rejected", 1)
			}
		}
		if d.NumEvents() == 0 {
			return
		}
		var traces []*cons.Trace
		for j := 0; j < o.orders; j++ {
			kind := cons.OrderKind(j % int(cons.NumOrderKinds))
			if j >= int(cons.NumOrderKinds) {
				kind = cons.OrdRandom
			}
			if j == 0 {
				kind = cons.OrdRandom
			}
			icfg := cons.InstCfg{Index: cons.IndexCfg(j % 3), ReuseVals: j%2 == 0}
			t := cons.Run(d, r, cons.RunOpts{Kinds: func(int) cons.OrderKind { return kind }, Inst: icfg, WithRef: true, ProbeRoots: o.probeRoots && j%2 == 1, WarmReset: j == 2})
			if j == 2 {
				c.Count("runs_on_instance_reset_from_other_epoch", 1)
			}
			c.Eval(1)
			c.Count("events_processed", int64(t.Processed))
			c.Count("blocks_compared", int64(len(t.Blocks)))
			c.Count("vote_ties_seen_by_reference", int64(t.Ties))
			c.Count("exact_quorum_tallies_seen_by_reference", int64(t.Exact))
			c.Count("blocks_with_cheaters", int64(t.CheatBlk))
			c.Count("blocks_multi_event", int64(t.MultiEv))
			c.Count("blocks_whose_atropos_lamport_is_below_the_previous_one", int64(t.LamportInversions))
			c.Count("blocks_empty_same_atropos_twice", int64(t.EmptyBlk))
			c.Count("frame_jump_roots", int64(t.JumpRoots))
			c.Count("old_epoch_events_dropped_after_seal", int64(t.Skipped))
			switch {
			case len(t.Blocks) == 0:
				c.Count("runs_with_0_blocks", 1)
			case len(t.Blocks) < 3:
				c.Count("runs_with_1_2_blocks", 1)
			default:
				c.Count("runs_with_3plus_blocks", 1)
			}
			if t.Outside != "" {
				c.Inconclusive(1)
				c.Count("reference_outside_assumptions", 1)
				if below {
					c.Violation("reference-left-assumptions-below-one-third", map[string]interface{}{"case": i, "order": kind.String(), "why": t.Outside, "dag": describeDAG(d)})
				}
				continue
			}
			for _, dc := range t.Discs {
				isCrit := dc.Kind == cons.DCrit || dc.Kind == cons.DEventRejected || dc.Kind == cons.DSealMismatch
				if isCrit && o.critOnlyBelowThird && !below {
					c.Count("byzantine_run_stopped", 1)
					continue
				}
				if o.mine[dc.Kind] {
					c.Violation(dc.Kind, map[string]interface{}{"case": i, "order": kind.String(), "index_cfg": j % 3, "detail": dc.Detail, "dag": describeDAG(d)})
				} else {
					c.Count("other_property_discrepancy_"+dc.Kind, 1)
				}
			}
			traces = append(traces, t)
		}
		if o.pairwise && len(traces) > 0 {
			all := append([]*cons.Trace{{Blocks: g.Blocks}}, traces...)
			for j := 1; j < len(all); j++ {
				if len(all[j].Discs) > 0 {
					continue // already reported / diverged
				}
				if ok, why := cons.BlocksEqual(all[0].Blocks, all[j].Blocks); !ok {
					c.Violation("instances-disagree-on-blocks", map[string]interface{}{"case": i, "order_index": j - 1, "why": why, "dag": describeDAG(d)})
				}
				c.Count("instance_pairs_compared", 1)
			}
		}
		c.Count("epochs_sealed", int64(len(d.Epochs)-1))
		if o.nontrivial != nil && o.nontrivial(d, traces) {
			c.Nontrivial(d.FP)
		}
		if c.WantSample() {
			s := describeDAG(d)
			s["case"] = i
			if len(traces) > 0 {
				var bl []string
				for _, b := range traces[0].Blocks {
					bl = append(bl, fmt.Sprintf("ep%d/f%d %s cheaters=%v events=%d", b.Epoch, b.Frame, b.Atropos.String(), b.Cheaters, len(b.Events)))
					if len(bl) >= 6 {
						break
					}
				}
				s["first_blocks"] = bl
			}
			c.Sample(s)
		}
	})
}

func minI(a, b int) int {
	if a < b {
		return a
	}
	return b
}
func maxI(a, b int) int {
	if a > b {
		return a
	}
	return b
}
