package checks

import (
	"fmt"

	"verif/cons"
	"verif/ev"

	"github.com/Fantom-foundation/lachesis-base/abft"
	"github.com/Fantom-foundation/lachesis-base/inter/idx"
)

// c33Sealed: the epoch switch made by consensus itself (EndBlock returns a validator set) - not by Reset - must leave a
// root registry without roots too. Small real DAGs are sealed at frame 1..3 (inside the window any roots cache covers);
// right after the Process call that sealed, every frame of the new epoch must be empty, and from then on the registry
// must hold exactly the roots of the new epoch's events (compared with the frames the events were built with).
func c33Sealed(c *ev.Ctx, i int) {
	r := c.Rand("sealed", i)
	n := 3 + r.Intn(3)
	plans := cons.RandomPlans(r, 2, -n, false, cons.CheatNone)
	for pi, p := range plans {
		for k := range p.Lag {
			if pi == 0 || i%2 == 0 {
				p.Lag[k] = 0
			} else if k == i%n {
				p.Lag[k] = 0.93 // new epoch: one validator far behind - its rare events are roots of several frames, most of them decided already
			}
		}
	}
	plans[0].SealAt = idx.Frame(1 + r.Intn(3))
	cfg := &cons.GenCfg{Plans: plans, EventsPer: 22 * n, MinParents: 1, MaxParents: 3}
	d, _, err := cons.Generate(r, cfg)
	if d == nil || len(d.Epochs) == 0 || !d.Epochs[0].Sealed {
		c.Count("sealed_dags_unusable", 1)
		return
	}
	if err != nil {
		// the generating instance refused one of its own events in the new epoch (another property's business); what it
		// produced up to there, the seal included, is still a valid stream for this check
		c.Count("sealed_dags_cut_short_by_the_generator", 1)
	}
	scfg := &abft.StoreConfig{Cache: abft.StoreCacheConfig{RootsNum: uint([]int{100, 1000, 3, 100}[r.Intn(4)]), RootsFrames: []int{100, 5, 3, 10}[r.Intn(4)]}}
	bad := false
	newEpoch := plans[1].Epoch
	rootsOf := map[idx.Frame]map[string]bool{} // new epoch: frame -> creator/id of roots, from the events themselves
	var lastFrame = map[idx.ValidatorID]idx.Frame{}
	t := cons.Run(d, r, cons.RunOpts{Kinds: func(int) cons.OrderKind { return cons.OrdGen }, Inst: cons.InstCfg{StoreCfg: scfg},
		OnEvent: func(t *cons.Trace, e *cons.Ev, nb []*cons.Block) {
			if bad {
				return
			}
			in := t.Inst
			for _, b := range nb {
				if b.Sealed {
					for f := idx.Frame(0); f <= 8; f++ {
						if got := in.Store.GetFrameRoots(f); len(got) != 0 {
							c.Violation("root-registry-differs-from-model", map[string]interface{}{"case": i, "cache": fmt.Sprintf("%+v", scfg.Cache),
								"why": fmt.Sprintf("epoch %d was just started by a consensus seal at frame %d, but frame %d already holds %d roots", in.Epoch(), b.Frame, f, len(got))})
							bad = true
							return
						}
					}
					c.Count("consensus_seals_followed_by_an_empty_registry", 1)
				}
			}
			if e.Epoch() == newEpoch && in.Epoch() == newEpoch {
				spf := lastFrame[e.Creator()]
				for f := spf + 1; f <= e.Frame(); f++ {
					if rootsOf[f] == nil {
						rootsOf[f] = map[string]bool{}
					}
					rootsOf[f][fmt.Sprintf("%d/%s", e.Creator(), e.ID().Hex())] = true
				}
				lastFrame[e.Creator()] = e.Frame()
				f := e.Frame()
				got := map[string]bool{}
				for _, g := range in.Store.GetFrameRoots(f) {
					got[fmt.Sprintf("%d/%s", g.Slot.Validator, g.ID.Hex())] = true
				}
				if len(got) != len(rootsOf[f]) {
					c.Violation("root-registry-differs-from-model", map[string]interface{}{"case": i, "cache": fmt.Sprintf("%+v", scfg.Cache),
						"why": fmt.Sprintf("epoch %d frame %d: registry holds %d roots, the epoch's events registered %d", newEpoch, f, len(got), len(rootsOf[f]))})
					bad = true
					return
				}
				for k := range rootsOf[f] {
					if !got[k] {
						c.Violation("root-registry-differs-from-model", map[string]interface{}{"case": i, "why": fmt.Sprintf("epoch %d frame %d: root %s missing", newEpoch, f, k)})
						bad = true
						return
					}
				}
				c.Count("queries_compared_after_a_consensus_seal", 1)
			}
		}})
	// at the end: every frame of the new epoch, not only the newest
	if !bad && t.Inst != nil && t.Inst.Epoch() == newEpoch {
		for f, want := range rootsOf {
			got := map[string]bool{}
			for _, g := range t.Inst.Store.GetFrameRoots(f) {
				got[fmt.Sprintf("%d/%s", g.Slot.Validator, g.ID.Hex())] = true
			}
			for k := range want {
				if !got[k] {
					c.Violation("root-registry-differs-from-model", map[string]interface{}{"case": i, "cache": fmt.Sprintf("%+v", scfg.Cache),
						"why": fmt.Sprintf("epoch %d frame %d (last decided frame %d): root %s was registered by its event (a root of every frame above its self-parent's, up to its own) and is missing", newEpoch, f, t.Inst.Store.GetLastDecidedFrame(), k)})
					bad = true
					break
				}
			}
			if bad {
				break
			}
			if len(got) != len(want) {
				c.Violation("root-registry-differs-from-model", map[string]interface{}{"case": i, "why": fmt.Sprintf("epoch %d frame %d: registry holds %d roots, events registered %d", newEpoch, f, len(got), len(want))})
				bad = true
				break
			}
			c.Count("frames_compared_at_the_end_of_a_real_run", 1)
		}
	}
	c.Eval(1)
	if !bad {
		c.Nontrivial(ev.Hash("sealed", d.FP))
	}
}
