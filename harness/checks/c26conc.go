package checks

import (
	"fmt"
	"sync"

	"github.com/Fantom-foundation/lachesis-base/kvdb/multidb"

	"verif/ev"
	"verif/memdisk"
)

// c26ConcurrentRoutes: a producer is shared by the goroutines of a node, so "routing is deterministic" has to hold
// while several of them route different requests through the same pattern routes at the same moment.
func c26ConcurrentRoutes(c *ev.Ctx, i int) {
	r := c.Rand("conc", i)
	rt := c26randomTable(r)
	rt["epoch-%d"] = multidb.Route{Type: "t1", Name: "ep-%d", Table: "E"}
	rt["x-%d"] = multidb.Route{Type: "t2", Name: "xnum-%d"}
	rt["lachesis/%d"] = multidb.Route{Type: "t1", Name: "lachesis-%d", Table: "L"}
	rt["ep%d/%s"] = multidb.Route{Type: "t2", Name: "e%d", Table: "s-%s"}
	disks := map[multidb.TypeName]*memdisk.Disk{"t1": memdisk.New(), "t2": memdisk.New()}
	p, err := multidb.NewProducer(c26producers(disks), rt, c26recKey)
	if err != nil {
		c.Count("concurrent_tables_rejected_by_constructor", 1)
		return
	}
	defer p.Close()
	const workers, per = 12, 6
	reqs := make([][]string, workers)
	want := map[string]multidb.Route{}
	for w := 0; w < workers; w++ {
		for k := 0; k < per; k++ {
			n := w*1000 + k*7 + r.Intn(5)
			req := []string{fmt.Sprintf("epoch-%d", n), fmt.Sprintf("x-%d", n), fmt.Sprintf("lachesis/%d", n), fmt.Sprintf("ep%d/q%d", n, w)}[k%4]
			reqs[w] = append(reqs[w], req)
			want[req] = p.RouteOf(req) // sequential answer
		}
	}
	var mu sync.Mutex
	bad := ""
	var wg sync.WaitGroup
	start := make(chan struct{})
	for w := 0; w < workers; w++ {
		wg.Add(1)
		go func(w int) {
			defer wg.Done()
			<-start
			for round := 0; round < 400; round++ {
				for _, req := range reqs[w] {
					if got := p.RouteOf(req); got != want[req] {
						mu.Lock()
						if bad == "" {
							bad = fmt.Sprintf("RouteOf(%q) = %+v while %d goroutines route other requests; alone it is %+v", req, got, workers-1, want[req])
						}
						mu.Unlock()
						return
					}
				}
			}
		}(w)
	}
	close(start)
	wg.Wait()
	c.Eval(1)
	if bad != "" {
		c.Violation("route-differs-under-concurrent-routing", map[string]interface{}{"case": i, "table": c26fmtTable(rt), "why": bad})
		return
	}
	c.Count("routes_compared_under_concurrent_routing", int64(workers*per*400))
	c.Nontrivial(ev.Hash("conc", c26fmtTable(rt)))
}
