package checks

import (
	"bytes"
	"fmt"
	"math/rand"

	"github.com/Fantom-foundation/lachesis-base/kvdb"

	"verif/kvm"
)

// Lock-step driver: one operation sequence applied to a model and to N stores; every output compared.

type kvSnap struct {
	s kvdb.Snapshot
}

type kvStore struct {
	name  string
	db    kvdb.Store
	flush func() error
	batch kvdb.Batch
	snaps []kvdb.Snapshot
}

type kvBatchOp struct {
	del  bool
	k, v []byte
}

type kvWorld struct {
	m       kvm.Model
	stores  []*kvStore
	pending []kvBatchOp // content of the open batch (same on all stores)
	hasB    bool
	snapM   []kvm.Model // model copies, parallel to every store's snaps
	log     []string
	touched map[string]bool
	stats   map[string]int
}

func newKVWorld(stacks []kvm.Stack) *kvWorld {
	w := &kvWorld{m: kvm.Model{}, touched: map[string]bool{}, stats: map[string]int{}}
	for _, s := range stacks {
		w.stores = append(w.stores, &kvStore{name: s.Name, db: s.DB, flush: s.Flush})
	}
	return w
}

type recWriter struct{ ops []kvBatchOp }

func (r *recWriter) Put(k, v []byte) error {
	r.ops = append(r.ops, kvBatchOp{false, append([]byte{}, k...), append([]byte{}, v...)})
	return nil
}
func (r *recWriter) Delete(k []byte) error {
	r.ops = append(r.ops, kvBatchOp{true, append([]byte{}, k...), nil})
	return nil
}

func scribble(b []byte) {
	for i := range b {
		b[i] ^= 0x5a
	}
}

func rPrefixStart(r *rand.Rand) (prefix, start []byte) {
	prefix, start = kvm.Key(r, 0, 2), kvm.Key(r, 0, 2)
	if r.Intn(4) == 0 {
		prefix = nil
	}
	if r.Intn(4) == 0 {
		start = nil
	}
	if r.Intn(6) == 0 {
		prefix = []byte{0xff}
	}
	if r.Intn(8) == 0 {
		prefix = []byte{'a', 0xff}
	}
	return
}

// step applies one random operation; returns a non-empty description of the first mismatch.
func (w *kvWorld) step(r *rand.Rand) (mismatch string) {
	fail := func(st *kvStore, format string, a ...interface{}) string {
		return fmt.Sprintf("[%s] ", st.name) + fmt.Sprintf(format, a...)
	}
	c := r.Intn(100)
	switch {
	case c < 20: // put
		k, v := kvm.Key(r, 0, 4), kvm.Key(r, 0, 3)
		w.log = append(w.log, fmt.Sprintf("put %x=%x", k, v))
		w.m[string(k)] = append([]byte{}, v...)
		w.touched[string(k)] = true
		for _, st := range w.stores {
			kk, vv := append([]byte{}, k...), append([]byte{}, v...)
			if err := st.db.Put(kk, vv); err != nil {
				return fail(st, "Put error %v", err)
			}
			scribble(kk) // the caller may reuse its buffers after the call
			scribble(vv)
		}
		w.stats["put"]++
		if len(v) == 0 {
			w.stats["empty_value_put"]++
		}
	case c < 28: // delete
		k := kvm.Key(r, 0, 4)
		if r.Intn(2) == 0 && len(w.touched) > 0 {
			for t := range w.touched {
				k = []byte(t)
				break
			}
		}
		w.log = append(w.log, fmt.Sprintf("delete %x", k))
		delete(w.m, string(k))
		for _, st := range w.stores {
			kk := append([]byte{}, k...)
			if err := st.db.Delete(kk); err != nil {
				return fail(st, "Delete error %v", err)
			}
			scribble(kk)
		}
		w.stats["delete"]++
	case c < 40: // get / has
		k := kvm.Key(r, 0, 4)
		if r.Intn(2) == 0 && len(w.touched) > 0 {
			for t := range w.touched {
				k = []byte(t)
				break
			}
		}
		w.log = append(w.log, fmt.Sprintf("get %x", k))
		for _, st := range w.stores {
			if why := kvm.CheckPoint(st.db, w.m, k); why != "" {
				return fail(st, "%s", why)
			}
		}
		w.stats["get"]++
	case c < 58: // iterate, fully or partially
		prefix, start := rPrefixStart(r)
		limit := -1
		if r.Intn(4) == 0 {
			limit = r.Intn(4)
		}
		w.log = append(w.log, fmt.Sprintf("iterate prefix=%x start=%x limit=%d", prefix, start, limit))
		want := w.m.Iter(prefix, start)
		if limit >= 0 && len(want) > limit {
			want = want[:limit]
		}
		interleave := r.Intn(2) == 0
		probe := kvm.Key(r, 0, 4)
		for _, st := range w.stores {
			var got []kvm.Pair
			var err error
			if !interleave {
				got, err = kvm.ReadAll(st.db, prefix, start, limit)
			} else {
				// point reads of another key through the same store between the steps of the iteration
				it := st.db.NewIterator(append([]byte{}, prefix...), append([]byte{}, start...))
				for (limit < 0 || len(got) < limit) && it.Next() {
					got = append(got, kvm.Pair{K: append([]byte{}, it.Key()...), V: append([]byte{}, it.Value()...)})
					_, _ = st.db.Get(probe)
					_, _ = st.db.Has(append([]byte{}, it.Key()...))
				}
				err = it.Error()
				it.Release()
			}
			if err != nil {
				return fail(st, "iterator error %v", err)
			}
			if why := kvm.SamePairs(got, want); why != "" {
				return fail(st, "iterate(prefix=%x,start=%x): %s; got [%s] want [%s]", prefix, start, why, kvm.FmtPairs(got), kvm.FmtPairs(want))
			}
		}
		w.stats["iterate"]++
		if interleave {
			w.stats["iterate_interleaved_with_point_reads"]++
		}
		if len(prefix) > 0 && prefix[len(prefix)-1] == 0xff {
			w.stats["iterate_prefix_ending_ff"]++
		}
	case c < 68: // batch put/delete
		if !w.hasB {
			for _, st := range w.stores {
				st.batch = st.db.NewBatch()
			}
			w.hasB, w.pending = true, nil
		}
		k, v := kvm.Key(r, 0, 4), kvm.Key(r, 0, 3)
		del := r.Intn(3) == 0
		w.log = append(w.log, fmt.Sprintf("batch del=%v %x=%x", del, k, v))
		for _, st := range w.stores {
			kk, vv := append([]byte{}, k...), append([]byte{}, v...)
			var err error
			if del {
				err = st.batch.Delete(kk)
			} else {
				err = st.batch.Put(kk, vv)
			}
			if err != nil {
				return fail(st, "batch op error %v", err)
			}
			scribble(kk)
			scribble(vv)
		}
		if del {
			w.pending = append(w.pending, kvBatchOp{true, k, nil})
		} else {
			w.pending = append(w.pending, kvBatchOp{false, k, v})
		}
	case c < 74: // batch write (+reset)
		if !w.hasB {
			return ""
		}
		w.log = append(w.log, "batch write+reset")
		for _, st := range w.stores {
			if err := st.batch.Write(); err != nil {
				return fail(st, "batch Write error %v", err)
			}
			st.batch.Reset()
		}
		for _, o := range w.pending {
			w.touched[string(o.k)] = true
			if o.del {
				delete(w.m, string(o.k))
			} else {
				w.m[string(o.k)] = o.v
			}
		}
		w.pending = nil
		w.stats["batch_write"]++
	case c < 76: // batch reset without write
		if !w.hasB {
			return ""
		}
		w.log = append(w.log, "batch reset")
		for _, st := range w.stores {
			st.batch.Reset()
		}
		w.pending = nil
	case c < 80: // batch replay into a recorder
		if !w.hasB {
			return ""
		}
		w.log = append(w.log, "batch replay")
		for _, st := range w.stores {
			rec := &recWriter{}
			if err := st.batch.Replay(rec); err != nil {
				return fail(st, "Replay error %v", err)
			}
			if len(rec.ops) != len(w.pending) {
				return fail(st, "Replay produced %d ops, batch holds %d", len(rec.ops), len(w.pending))
			}
			for i, o := range w.pending {
				g := rec.ops[i]
				if g.del != o.del || !bytes.Equal(g.k, o.k) || (!o.del && !bytes.Equal(g.v, o.v)) {
					return fail(st, "Replay op %d is (del=%v %x=%x), batch has (del=%v %x=%x)", i, g.del, g.k, g.v, o.del, o.k, o.v)
				}
			}
		}
		w.stats["batch_replay"]++
	case c < 84: // take snapshot
		if len(w.snapM) >= 3 {
			return ""
		}
		w.log = append(w.log, "snapshot")
		for _, st := range w.stores {
			s, err := st.db.GetSnapshot()
			if err != nil {
				return fail(st, "GetSnapshot error %v", err)
			}
			st.snaps = append(st.snaps, s)
		}
		w.snapM = append(w.snapM, w.m.Copy())
		w.stats["snapshot"]++
	case c < 92: // read a snapshot
		if len(w.snapM) == 0 {
			return ""
		}
		i := r.Intn(len(w.snapM))
		sm := w.snapM[i]
		if r.Intn(2) == 0 {
			k := kvm.Key(r, 0, 4)
			for t := range w.touched {
				if r.Intn(2) == 0 {
					k = []byte(t)
				}
				break
			}
			w.log = append(w.log, fmt.Sprintf("snapshot[%d] get %x", i, k))
			for _, st := range w.stores {
				if why := kvm.CheckPoint(st.snaps[i], sm, k); why != "" {
					return fail(st, "snapshot %d: %s", i, why)
				}
			}
		} else {
			prefix, start := rPrefixStart(r)
			w.log = append(w.log, fmt.Sprintf("snapshot[%d] iterate prefix=%x start=%x", i, prefix, start))
			want := sm.Iter(prefix, start)
			for _, st := range w.stores {
				got, err := kvm.ReadAll(st.snaps[i], prefix, start, -1)
				if err != nil {
					return fail(st, "snapshot iterator error %v", err)
				}
				if why := kvm.SamePairs(got, want); why != "" {
					return fail(st, "snapshot %d iterate(prefix=%x,start=%x): %s; got [%s] want [%s]", i, prefix, start, why, kvm.FmtPairs(got), kvm.FmtPairs(want))
				}
			}
		}
		w.stats["snapshot_read"]++
		if !sm.Equal(w.m) {
			w.stats["snapshot_read_after_divergence"]++
		}
	case c < 95: // release a snapshot
		if len(w.snapM) == 0 {
			return ""
		}
		i := r.Intn(len(w.snapM))
		w.log = append(w.log, fmt.Sprintf("snapshot[%d] release", i))
		for _, st := range w.stores {
			st.snaps[i].Release()
			st.snaps = append(st.snaps[:i:i], st.snaps[i+1:]...)
		}
		w.snapM = append(w.snapM[:i:i], w.snapM[i+1:]...)
	default: // flush some flushable layers
		w.log = append(w.log, "flush (random subset of flushable stacks)")
		for _, st := range w.stores {
			if st.flush != nil && r.Intn(2) == 0 {
				if err := st.flush(); err != nil {
					return fail(st, "Flush error %v", err)
				}
				w.stats["flush"]++
			}
		}
	}
	return ""
}

// finish releases snapshots and compares the full content of every store with the model.
func (w *kvWorld) finish() string {
	for _, st := range w.stores {
		for _, s := range st.snaps {
			s.Release()
		}
		st.snaps = nil
		got, err := kvm.ReadAll(st.db, nil, nil, -1)
		if err != nil {
			return fmt.Sprintf("[%s] final iterator error %v", st.name, err)
		}
		if why := kvm.SamePairs(got, w.m.Iter(nil, nil)); why != "" {
			return fmt.Sprintf("[%s] final content: %s", st.name, why)
		}
	}
	return ""
}
