package checks

import (
	"fmt"

	"verif/cons"
	"verif/ev"

	"github.com/Fantom-foundation/lachesis-base/hash"
	"github.com/Fantom-foundation/lachesis-base/inter/idx"
)

// c02Scripted builds, through a real instance, a DAG in which two consecutive Atropoi do not observe one another and the
// later one has the SMALLER Lamport time (random generators practically never produce this): seven equal validators
// A..G; A's frame-2 root a' sits on top of a long private chain (Lamport ~20) and is seen by C..G only; B reaches its
// frame-3 root b3 from older events (Lamport ~5) without a'; A then stays silent, so the elections give Atropos(2) = a'
// and Atropos(3) = b3. Later blocks walk back into a'. The delivery rules are those of the long-epoch run (DFS oracle).
// variant 1 shifts which validators play the roles (another canonical order), variant 2 lets A return later.
func c02Scripted(c *ev.Ctx, variant int) {
	ids := []idx.ValidatorID{1, 2, 3, 4, 5, 6, 7}
	if variant%2 == 1 {
		ids = []idx.ValidatorID{11, 12, 13, 14, 15, 16, 17}
	}
	weights := []uint64{1, 1, 1, 1, 1, 1, 1}
	in := cons.NewInst(1, cons.BuildValidators(ids, weights), nil, cons.InstCfg{Index: cons.IndexCfg(variant % 3)})
	parents := map[hash.Event]hash.Events{}
	delivered := map[hash.Event]idx.Frame{}
	bad := false
	viol := func(class string, kv map[string]interface{}) {
		kv["variant"], kv["scenario"] = variant, "scripted: consecutive Atropoi with falling Lamport time"
		c.Violation(class, kv)
		bad = true
	}
	lastFrame := idx.Frame(0)
	lastLam := idx.Lamport(0)
	inversions := 0
	var atropoi []string
	names := map[hash.Event]string{}
	in.OnBlock = func(b *cons.Block) {
		if bad {
			return
		}
		if b.Frame != lastFrame+1 {
			viol(cons.DFrameNumber, map[string]interface{}{"impl_frame": b.Frame, "previous_block_frame": lastFrame})
			return
		}
		lastFrame = b.Frame
		if b.Atropos.Lamport() < lastLam {
			inversions++
		}
		lastLam = b.Atropos.Lamport()
		atropoi = append(atropoi, fmt.Sprintf("f%d:%s(L%d)", b.Frame, names[b.Atropos], b.Atropos.Lamport()))
		want := map[hash.Event]bool{}
		stack := []hash.Event{b.Atropos}
		for len(stack) > 0 {
			h := stack[len(stack)-1]
			stack = stack[:len(stack)-1]
			if want[h] {
				continue
			}
			if _, ok := delivered[h]; ok {
				continue
			}
			want[h] = true
			stack = append(stack, parents[h]...)
		}
		got := map[hash.Event]bool{}
		for _, h := range b.Events {
			if f, ok := delivered[h]; ok {
				viol(cons.DDeliveredTwice, map[string]interface{}{"event": names[h], "first_frame": f, "again_frame": b.Frame, "atropoi": atropoi})
				return
			}
			if got[h] {
				viol(cons.DDeliveredTwice, map[string]interface{}{"event": names[h], "within_block": b.Frame})
				return
			}
			got[h] = true
		}
		for h := range want {
			if !got[h] {
				viol(cons.DDelivered, map[string]interface{}{"frame": b.Frame, "missing": names[h], "atropoi": atropoi})
				return
			}
		}
		if len(got) != len(want) {
			viol(cons.DDelivered, map[string]interface{}{"frame": b.Frame, "delivered": len(got), "new_ancestry": len(want), "atropoi": atropoi})
			return
		}
		for h := range got {
			delivered[h] = b.Frame
		}
	}
	tip := make([]*cons.Ev, 7)
	seq := make([]idx.Event, 7)
	mk := func(who int, name string, others ...*cons.Ev) *cons.Ev {
		if bad {
			return nil
		}
		e := &cons.Ev{Name: name}
		e.SetEpoch(1)
		e.SetCreator(ids[who])
		seq[who]++
		e.SetSeq(seq[who])
		var ps hash.Events
		lam := idx.Lamport(0)
		if tip[who] != nil {
			ps = append(ps, tip[who].ID())
			lam = tip[who].Lamport()
		}
		for _, o := range others {
			if o == nil || o == tip[who] {
				continue
			}
			ps = append(ps, o.ID())
			if o.Lamport() > lam {
				lam = o.Lamport()
			}
		}
		e.SetParents(ps)
		e.SetLamport(lam + 1)
		if err := in.Build(e); err != nil {
			viol(cons.DCrit, map[string]interface{}{"event": name, "err": "Build: " + err.Error()})
			return nil
		}
		e.SetHashID(uint64(variant))
		parents[e.ID()] = ps
		names[e.ID()] = name
		if err := in.Process(e); err != nil {
			viol(cons.DCrit, map[string]interface{}{"event": name, "err": err.Error()})
			return nil
		}
		tip[who] = e
		return e
	}
	const A, B = 0, 1
	group := []int{1, 2, 3, 4, 5, 6} // B..G
	// first events; A then builds its private chain
	for v := 0; v < 7; v++ {
		mk(v, fmt.Sprintf("%c1", 'a'+v))
	}
	for k := 2; k <= 20; k++ {
		mk(A, fmt.Sprintf("a%d", k))
	}
	// all-to-all rounds among B..G until all of them are roots of frame 2
	round := 1
	for rounds := 0; rounds < 6 && !bad; rounds++ {
		prev := append([]*cons.Ev{}, tip...)
		round++
		all2 := true
		for _, v := range group {
			var others []*cons.Ev
			for _, o := range group {
				others = append(others, prev[o])
			}
			e := mk(v, fmt.Sprintf("%c%d", 'a'+v, round), others...)
			if e == nil || e.Frame() != 2 {
				all2 = false
			}
		}
		if all2 {
			break
		}
	}
	if bad {
		return
	}
	roots2 := append([]*cons.Ev{}, tip...)
	// variants 4 and 5: G (one seventh of the weight) double-signs its next event; one twin goes into a' only, the other
	// into b3 only, so each of the two Atropoi sees one branch and neither sees the fork
	cheater := variant >= 4
	gSeen := roots2[6]
	var gTwin *cons.Ev
	if cheater {
		var others []*cons.Ev
		for _, o := range group {
			others = append(others, roots2[o])
		}
		gSeen = mk(6, "xg", others...)
		// the twin: same self-parent and seq, other parents; G itself goes on from the first one
		tw := &cons.Ev{Name: "xg-twin"}
		tw.SetEpoch(1)
		tw.SetCreator(ids[6])
		tw.SetSeq(gSeen.Seq())
		ps := hash.Events{roots2[6].ID(), roots2[1].ID(), roots2[2].ID()}
		tw.SetParents(ps)
		tw.SetLamport(gSeen.Lamport())
		if err := in.Build(tw); err != nil {
			viol(cons.DCrit, map[string]interface{}{"event": tw.Name, "err": "Build: " + err.Error()})
			return
		}
		tw.SetHashID(uint64(variant) + 900)
		parents[tw.ID()] = ps
		names[tw.ID()] = tw.Name
		if err := in.Process(tw); err != nil {
			viol(cons.DCrit, map[string]interface{}{"event": tw.Name, "err": err.Error()})
			return
		}
		gTwin = tw
	}
	// a': A's frame-2 root on top of its chain, seeing the frame-2 roots of B..G
	aPrime := mk(A, "a'", roots2[1], roots2[2], roots2[3], roots2[4], roots2[5], gSeen)
	// x round among B..G (nobody links to a')
	xs := make([]*cons.Ev, 7)
	for _, v := range group {
		if cheater && v == 6 {
			xs[v] = gSeen
			continue
		}
		var others []*cons.Ev
		for _, o := range group {
			others = append(others, roots2[o])
		}
		xs[v] = mk(v, fmt.Sprintf("x%c", 'a'+v), others...)
	}
	// b3 from the x events of B..F: frame-3 root without a' (and, with the cheater, on top of the other twin)
	b3 := mk(B, "b3", xs[2], xs[3], xs[4], xs[5], gTwin)
	// C..G first take a' in (still frame 2), then gossip among themselves: frame-3 roots that forkless-cause a'
	mid := make([]*cons.Ev, 7)
	for _, v := range group[1:] {
		mid[v] = mk(v, fmt.Sprintf("%c'", 'a'+v), aPrime)
	}
	for _, v := range group[1:] {
		mk(v, fmt.Sprintf("%c''", 'a'+v), mid[2], mid[3], mid[4], mid[5], mid[6])
	}
	planned := !bad && aPrime != nil && b3 != nil && aPrime.Frame() == 2 && b3.Frame() == 3 && xs[2].Frame() == 2 && mid[2].Frame() == 2 && tip[2].Frame() == 3
	// from here on: all-to-all among B..G (A silent; in variant 2 it returns after a few rounds)
	for r := 0; r < 14 && !bad; r++ {
		prev := append([]*cons.Ev{}, tip...)
		members := group
		if variant%4 >= 2 && r >= 6 {
			members = []int{0, 1, 2, 3, 4, 5, 6}
		}
		for _, v := range members {
			var others []*cons.Ev
			for _, o := range members {
				others = append(others, prev[o])
			}
			mk(v, fmt.Sprintf("%c.r%d", 'a'+v, r), others...)
		}
	}
	in.OnBlock = nil
	c.Eval(1)
	if !planned {
		c.Count("scripted_dag_did_not_take_the_planned_shape", 1)
	}
	c.Count("scripted_blocks", int64(lastFrame))
	c.Count("scripted_consecutive_atropoi_with_falling_lamport", int64(inversions))
	if !bad && inversions > 0 {
		c.Nontrivial(uint64(0x5c7100 + variant))
	}
	if variant == 0 && !bad {
		c.Sample(map[string]interface{}{"kind": "scripted falling-Lamport DAG", "atropoi": atropoi})
	}
}
