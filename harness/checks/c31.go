package checks

import (
	"fmt"
	"math/big"
	"math/rand"
	"sort"

	"github.com/Fantom-foundation/lachesis-base/utils/piecefunc"

	"verif/ev"
)

// C31 Piecewise-linear functions interpolate within rounding.
func init() { register("C31", "exploration", runC31) }

const c31Max = uint64(18446744073709551615/1000000 - 1)

func runC31(c *ev.Ctx) {
	c.Rule = "random dot lists (2..6 dots, every 16th list 7..256 dots with the end pieces always probed; coordinates from {0..9, range maximum-0..9, small, uniform, neighbours x+1}) and per function 12 inputs x (each dot, dot+-1, segment interior, 0, MaxUint64); oracle in big rationals for every clause: before first / after last / exact at dots / between min-1 and max of the neighbouring Ys / |f(x)-exact| <= |dY|/10^6 + 2; " +
		"invalid lists (fewer than two dots, non-increasing X, X or Y above the supported range) must panic. non-trivial = distinct (function, x) with x strictly inside a segment whose Ys differ"
	c.Assumptions = []string{"supported coordinate range is [0, MaxUint64/10^6 - 1] as documented by the constructor's checks"}
	n := c.Pick(60000, 3000000)
	c.Parallel(n, 0, func(i int) { c31Case(c, c.Rand("f", i), i) })
	c.Parallel(c.Pick(4000, 100000), 0, func(i int) { c31Invalid(c, c.Rand("bad", i), i) })
}

func c31pick(r *rand.Rand) uint64 {
	switch r.Intn(6) {
	case 0:
		return uint64(r.Intn(10))
	case 1:
		return c31Max - uint64(r.Intn(10))
	case 2:
		return uint64(r.Int63n(2000000))
	default:
		return uint64(r.Int63n(int64(c31Max)))
	}
}

func c31Case(c *ev.Ctx, r *rand.Rand, caseN int) {
	n := 2 + r.Intn(5)
	if caseN%16 == 0 {
		n = 7 + r.Intn(250) // long tables (an implementation may switch its search method with the length)
	}
	xs := map[uint64]bool{}
	for len(xs) < n {
		x := c31pick(r)
		xs[x] = true
		if r.Intn(4) == 0 && x < c31Max {
			xs[x+1] = true // neighbouring dots
		}
	}
	var dots []piecefunc.Dot
	for x := range xs {
		dots = append(dots, piecefunc.Dot{X: x, Y: c31pick(r)})
	}
	sort.Slice(dots, func(i, j int) bool { return dots[i].X < dots[j].X })
	n = len(dots)
	var f func(uint64) uint64
	// the dot list is handed over as a prefix of a larger table; what lies behind it is the caller's
	table := make([]piecefunc.Dot, n, n+3)
	copy(table, dots)
	sentinelDot := piecefunc.Dot{X: 424242, Y: uint64(caseN)}
	tailDots := table[n : n+3]
	for k := range tailDots {
		tailDots[k] = sentinelDot
	}
	if p, _ := ev.Try(func() { f = piecefunc.NewFunc(table) }); p != nil {
		c.Violation("valid-dots-rejected", map[string]interface{}{"case": caseN, "dots": fmt.Sprint(dots), "panic": fmt.Sprint(p)})
		return
	}
	for k := range tailDots {
		if tailDots[k] != sentinelDot {
			c.Violation("valid-dots-rejected", map[string]interface{}{"case": caseN, "dots": fmt.Sprint(dots), "why": fmt.Sprintf("NewFunc wrote into the caller's array behind the dot list (slot +%d)", k)})
			return
		}
	}
	for k := range dots {
		if table[k] != dots[k] {
			c.Violation("valid-dots-rejected", map[string]interface{}{"case": caseN, "dots": fmt.Sprint(dots), "why": "NewFunc changed the caller's dots"})
			return
		}
	}
	if n > 2 {
		// a second function over a shorter prefix of the same table must not disturb the first
		_, _ = ev.Try(func() { _ = piecefunc.NewFunc(table[:2]) })
		for k := range dots {
			if table[k] != dots[k] {
				c.Violation("valid-dots-rejected", map[string]interface{}{"case": caseN, "dots": fmt.Sprint(dots), "why": fmt.Sprintf("building a function from table[:2] changed table[%d], a dot of the function built before", k)})
				return
			}
		}
	}
	fail := func(class string, x, y uint64, extra string) {
		c.Violation(class, map[string]interface{}{"case": caseN, "dots": fmt.Sprint(dots), "x": x, "f(x)": y, "detail": extra})
	}
	eval := func(x uint64) (y uint64, ok bool) {
		if p, _ := ev.Try(func() { y = f(x) }); p != nil {
			fail("evaluation-panics", x, 0, fmt.Sprint(p))
			return 0, false
		}
		return y, true
	}
	// outside
	if dots[0].X > 0 {
		for _, x := range []uint64{0, dots[0].X - 1} {
			if y, ok := eval(x); !ok || y != dots[0].Y {
				fail("before-first-dot", x, y, "")
				return
			}
		}
	}
	for _, x := range []uint64{dots[n-1].X + 1, ^uint64(0), ^uint64(0) / 2} {
		if x <= dots[n-1].X {
			continue
		}
		if y, ok := eval(x); !ok || y != dots[n-1].Y {
			fail("after-last-dot", x, y, "")
			return
		}
	}
	for q := 0; q < 12; q++ {
		i := r.Intn(n - 1)
		if n > 7 && q < 4 {
			i = []int{0, n - 2, 1, n - 3}[q] // the pieces at both ends of a long table
		}
		d0, d1 := dots[i], dots[i+1]
		var x uint64
		switch r.Intn(6) {
		case 0:
			x = d0.X
		case 1:
			x = d1.X
		case 2:
			x = d0.X + 1
		case 3:
			x = d1.X - 1
		default:
			x = d0.X + uint64(r.Int63n(int64(d1.X-d0.X)+1))
		}
		if x < d0.X || x > d1.X {
			continue
		}
		y, ok := eval(x)
		if !ok {
			return
		}
		c.Count("points_evaluated", 1)
		for _, d := range dots {
			if d.X == x && y != d.Y {
				fail("not-exact-at-dot", x, y, fmt.Sprint("want ", d.Y))
				return
			}
		}
		lo, hi := d0.Y, d1.Y
		if lo > hi {
			lo, hi = hi, lo
		}
		if y > hi || (lo > 0 && y < lo-1) {
			fail("outside-neighbour-range", x, y, fmt.Sprintf("allowed [%d-1, %d]", lo, hi))
			return
		}
		num := new(big.Int).Sub(new(big.Int).SetUint64(d1.Y), new(big.Int).SetUint64(d0.Y))
		num.Mul(num, new(big.Int).SetUint64(x-d0.X))
		exact := new(big.Rat).SetFrac(num, new(big.Int).SetUint64(d1.X-d0.X))
		exact.Add(exact, new(big.Rat).SetInt(new(big.Int).SetUint64(d0.Y)))
		diff := new(big.Rat).Sub(new(big.Rat).SetInt(new(big.Int).SetUint64(y)), exact)
		diff.Abs(diff)
		bound := new(big.Rat).SetFrac(new(big.Int).SetUint64(hi-lo), big.NewInt(1000000))
		bound.Add(bound, big.NewRat(2, 1))
		if diff.Cmp(bound) > 0 {
			fail("interpolation-error-too-large", x, y, fmt.Sprintf("exact %s diff %s bound %s", exact.FloatString(3), diff.FloatString(3), bound.FloatString(3)))
			return
		}
		if x > d0.X && x < d1.X && d0.Y != d1.Y {
			c.Nontrivial(ev.Hash(caseN, x))
		}
	}
	c.Eval(1)
	if c.WantSample() {
		c.Sample(map[string]interface{}{"case": caseN, "dots": fmt.Sprint(dots)})
	}
}

func c31Invalid(c *ev.Ctx, r *rand.Rand, caseN int) {
	var dots []piecefunc.Dot
	kind := r.Intn(5)
	switch kind {
	case 0: // too few
		for i := 0; i < r.Intn(2); i++ {
			dots = append(dots, piecefunc.Dot{X: c31pick(r), Y: c31pick(r)})
		}
	case 1, 2: // non-increasing X somewhere
		n := 2 + r.Intn(4)
		x := uint64(r.Intn(1000))
		for i := 0; i < n; i++ {
			dots = append(dots, piecefunc.Dot{X: x, Y: c31pick(r)})
			x += 1 + uint64(r.Intn(1000))
		}
		j := 1 + r.Intn(n-1)
		if kind == 1 {
			dots[j].X = dots[j-1].X // equal
		} else {
			dots[j].X = dots[j-1].X - uint64(r.Intn(int(dots[j-1].X)+1)) // lower or equal
		}
	case 3: // X out of range
		dots = []piecefunc.Dot{{X: 0, Y: 1}, {X: c31Max + 1 + uint64(r.Intn(1000)), Y: 2}}
	default: // Y out of range
		dots = []piecefunc.Dot{{X: 0, Y: c31Max + 1 + uint64(r.Intn(1000))}, {X: 5, Y: 2}}
		if r.Intn(2) == 0 {
			dots[0].Y, dots[1].Y = 1, ^uint64(0)-uint64(r.Intn(5))
		}
	}
	p, _ := ev.Try(func() { piecefunc.NewFunc(dots) })
	c.Eval(1)
	c.Count("invalid_lists_tried", 1)
	if p == nil {
		c.Violation("invalid-dots-accepted", map[string]interface{}{"case": caseN, "dots": fmt.Sprint(dots), "kind": kind})
	}
}
