package checks

import (
	"fmt"
	"github.com/Fantom-foundation/lachesis-base/hash"
	"sort"

	"github.com/Fantom-foundation/lachesis-base/emitter/ancestor"
	"github.com/Fantom-foundation/lachesis-base/inter/idx"
	"github.com/Fantom-foundation/lachesis-base/utils/adapters"

	"verif/cons"
	"verif/ev"
)

// C20 Quorum indexer medians and metrics follow their definition.
func init() { register("C20", "exploration", runC20) }

const c20forkObs = uint64(1<<31 - 2)

func runC20(c *ev.Ctx) {
	c.Rule = "plain DAGs (1..10 validators, all weight regimes, forks by any subset) indexed by a real vecfc.Index; every event is handed to QuorumIndexer.ProcessEvent with a seeded self/non-self flag (independent of the creator, also flipping for one creator); a fifth of the events is delivered twice, a third is followed by the next event without any query in between; after every other event: GetGlobalMedianSeqs vs 'largest s such that the creators whose latest processed event observes the validator at >= s hold a quorum' computed from the reference's graph closure (a seen fork counts as 2^31-2), " +
		"GetSelfParentSeqs vs the observation of the last event processed with the self flag, and GetMetricOf(candidate) for two known events (and, on a third of the events, for one more candidate asked right after ProcessEvent, before any other query) vs the sum over validators of an argument-order-sensitive diff function of (median, own, candidate's observation, validator index). " +
		"Every 25th DAG has 66-75 validators. On a third of the events the indexer's SearchStrategy() is offered the same few candidates again and must pick one of maximal metric by the definition. " +
		"non-trivial = distinct DAGs where some median was decided by a fork observation or where two creators' latest events disagreed about a validator by more than one"
	c.Assumptions = []string{"observations come from the reference closure (C06 ties the index to it)", "the diff function is pure"}
	nD := c.Pick(1500, 30000)
	diff := func(median, current, update idx.Event, v idx.Validator) ancestor.Metric {
		x := uint64(median)*1000003 + uint64(current)*10007 + uint64(update)*101 + uint64(v)
		if update > median {
			x += 7
		}
		if current > update {
			x ^= 0x5555
		}
		return ancestor.Metric(x)
	}
	c.Parallel(nD, 0, func(i int) {
		r := c.Rand("dag", i)
		plans := cons.RandomPlans(r, 1, 10, i%5 == 4, cons.CheatAny)
		large := i%25 == 24
		if large {
			plans = cons.RandomPlans(r, 1, -(66 + r.Intn(10)), false, cons.CheatNone) // more validators than bits in a word
			for k := range plans[0].Lag {
				plans[0].Lag[k] = 0
			}
			c.Count("dags_with_more_than_64_validators", 1)
		}
		plan := plans[0]
		n := len(plan.IDs)
		cfg := &cons.GenCfg{Plans: plans, Plain: true, EventsPer: 10 + r.Intn(70), MinParents: r.Intn(2), MaxParents: 2 + r.Intn(n+1), ForkProb: 0.05 + r.Float64()*0.3}
		if large {
			cfg.EventsPer, cfg.MinParents, cfg.MaxParents = 150+r.Intn(60), 2, 10
		}
		d, _, err := cons.Generate(r, cfg)
		if err != nil {
			panic(err)
		}
		evs := d.Epochs[0].Events
		if len(evs) == 0 {
			return
		}
		vals := plan.Validators()
		x := newVecIdx(plan, cons.IndexCfg(i%3))
		ref := cons.NewRef(plan.IDs, plan.Weights)
		qi := ancestor.NewQuorumIndexer(vals, &adapters.VectorToDagIndexer{Index: x.vi}, diff)
		sorted := vals.SortedIDs()
		ws := vals.SortedWeights()
		quorum := uint64(vals.Quorum())
		latest := map[idx.ValidatorID]int{} // creator -> ref index of its latest processed event
		selfEv := -1
		forkDecided, disagree := false, false
		obs := func(e int, v idx.ValidatorID) uint64 {
			hi, fork := ref.Highest(e, v)
			if fork {
				return c20forkObs
			}
			return uint64(hi)
		}
		desc := func() map[string]interface{} { return map[string]interface{}{"case": i, "dag": describeDAG(d)} }
		order := cons.Order(r, evs, cons.OrderKind([]cons.OrderKind{cons.OrdGen, cons.OrdRandom, cons.OrdCreatorLate}[i%3]))
		for k, e := range order {
			if err := x.add(e); err != nil {
				c.Count("other_property_discrepancy_index-add-failed", 1)
				return
			}
			ref.Add(e, nil)
			ei, _ := ref.Index(e.ID())
			self := r.Intn(3) == 0
			if p, _ := ev.Try(func() { qi.ProcessEvent(e, self) }); p != nil {
				m := desc()
				m["panic"] = fmt.Sprint(p)
				c.Violation("process-event-panics", m)
				return
			}
			latest[e.Creator()] = ei
			if self {
				selfEv = ei
			}
			if r.Intn(5) == 0 {
				// the same event is delivered once more (same flag): nothing may change, least of all what is pending
				if p, _ := ev.Try(func() { qi.ProcessEvent(e, self) }); p != nil {
					m := desc()
					m["panic"] = fmt.Sprint(p)
					c.Violation("process-event-panics", m)
					return
				}
				c.Count("events_delivered_twice", 1)
			}
			if r.Intn(3) == 0 && k+1 < len(order) {
				c.Count("events_processed_without_a_query_before_the_next", 1)
				continue // several events in a row without any query in between
			}
			// ---- on some events the metric is asked FIRST, before anything else reads the indexer
			earlyCand, earlyGot := -1, ancestor.Metric(0)
			if r.Intn(3) == 0 {
				earlyCand = r.Intn(ref.Len())
				if p, _ := ev.Try(func() { earlyGot = qi.GetMetricOf(ref.Ev(earlyCand).ID) }); p != nil {
					m := desc()
					m["panic"] = fmt.Sprint(p)
					c.Violation("metric-panics", m)
					return
				}
			}
			// ---- medians
			var med []idx.Event
			if p, _ := ev.Try(func() { med = qi.GetGlobalMedianSeqs() }); p != nil {
				m := desc()
				m["panic"] = fmt.Sprint(p)
				c.Violation("median-panics", m)
				return
			}
			wantMed := make([]uint64, len(sorted))
			for vi, v := range sorted {
				type ow struct {
					o, w uint64
				}
				var col []ow
				var lo, hi uint64 = 1 << 62, 0
				for ci, cr := range sorted {
					o := uint64(0)
					if le, ok := latest[cr]; ok {
						o = obs(le, v)
					}
					col = append(col, ow{o, uint64(ws[ci])})
					if o < lo {
						lo = o
					}
					if o > hi && o != c20forkObs {
						hi = o
					}
				}
				if hi > lo+1 {
					disagree = true
				}
				sort.Slice(col, func(a, b int) bool { return col[a].o > col[b].o })
				var acc uint64
				for _, x := range col {
					acc += x.w
					if acc >= quorum {
						wantMed[vi] = x.o
						break
					}
				}
				if wantMed[vi] == c20forkObs {
					forkDecided = true
				}
				if uint64(med[vi]) != wantMed[vi] {
					m := desc()
					m["event_index"], m["event"], m["validator"], m["median_got"], m["median_want"] = k, e.Name, v, med[vi], wantMed[vi]
					c.Violation("median-differs-from-definition", m)
					return
				}
			}
			c.Count("medians_compared", int64(len(sorted)))
			// ---- own observation
			own := qi.GetSelfParentSeqs()
			for vi, v := range sorted {
				want := uint64(0)
				if selfEv >= 0 {
					want = obs(selfEv, v)
				}
				if uint64(own[vi]) != want {
					m := desc()
					m["event_index"], m["event"], m["validator"], m["own_got"], m["own_want"], m["self_flag"] = k, e.Name, v, own[vi], want, self
					c.Violation("own-observation-differs", m)
					return
				}
			}
			// ---- the search strategy built from the indexer picks a candidate of maximal (true) metric; the same few
			// candidates are offered again and again while own events and medians move
			if r.Intn(3) == 0 && ref.Len() >= 2 {
				var opts hash.Events
				var optIdx []int
				for _, ci := range []int{0, 1, ref.Len() / 2, ref.Len() - 1, r.Intn(ref.Len())} {
					dup := false
					for _, o := range optIdx {
						dup = dup || o == ci
					}
					if !dup && ci < ref.Len() {
						optIdx = append(optIdx, ci)
						opts = append(opts, ref.Ev(ci).ID)
					}
				}
				trueMetric := func(ci int) ancestor.Metric {
					var m ancestor.Metric
					for vi, v := range sorted {
						cur := uint64(0)
						if selfEv >= 0 {
							cur = obs(selfEv, v)
						}
						m += diff(idx.Event(wantMed[vi]), idx.Event(cur), idx.Event(obs(ci, v)), idx.Validator(vi))
					}
					return m
				}
				var pick int
				if p, _ := ev.Try(func() { pick = qi.SearchStrategy().Choose(nil, opts) }); p != nil {
					m := desc()
					m["panic"] = fmt.Sprint(p)
					c.Violation("metric-panics", m)
					return
				}
				var best ancestor.Metric
				for _, ci := range optIdx {
					if tm := trueMetric(ci); tm > best {
						best = tm
					}
				}
				if pick < 0 || pick >= len(optIdx) || trueMetric(optIdx[pick]) != best {
					m := desc()
					m["event_index"], m["options"], m["picked"], m["why"] = k, optIdx, pick, "the indexer's search strategy picked a candidate whose metric (by the definition) is not maximal"
					c.Violation("metric-differs-from-definition", m)
					return
				}
				c.Count("strategy_picks_compared", 1)
			}
			// ---- metric of candidates
			for q := 0; q < 3; q++ {
				ci := r.Intn(ref.Len())
				var got ancestor.Metric
				if q == 2 {
					if earlyCand < 0 {
						break
					}
					ci, got = earlyCand, earlyGot
					c.Count("metrics_asked_before_any_other_query", 1)
				} else if p, _ := ev.Try(func() { got = qi.GetMetricOf(ref.Ev(ci).ID) }); p != nil {
					m := desc()
					m["panic"] = fmt.Sprint(p)
					c.Violation("metric-panics", m)
					return
				}
				var want ancestor.Metric
				for vi, v := range sorted {
					cur := uint64(0)
					if selfEv >= 0 {
						cur = obs(selfEv, v)
					}
					want += diff(idx.Event(wantMed[vi]), idx.Event(cur), idx.Event(obs(ci, v)), idx.Validator(vi))
				}
				c.Count("metrics_compared", 1)
				if got != want {
					m := desc()
					m["event_index"], m["candidate"], m["metric_got"], m["metric_want"] = k, ci, uint64(got), uint64(want)
					c.Violation("metric-differs-from-definition", m)
					return
				}
			}
		}
		c.Eval(1)
		if forkDecided || disagree {
			c.Nontrivial(d.FP)
		}
		if forkDecided {
			c.Count("dags_with_median_decided_by_fork", 1)
		}
		if c.WantSample() {
			s := describeDAG(d)
			s["case"] = i
			c.Sample(s)
		}
	})
}
