package checks

import (
	"bytes"
	"fmt"

	"github.com/Fantom-foundation/lachesis-base/common/bigendian"
	"github.com/Fantom-foundation/lachesis-base/hash"
	"github.com/Fantom-foundation/lachesis-base/inter/dag"
	"github.com/Fantom-foundation/lachesis-base/inter/idx"

	"verif/ev"
)

// c32Aliasing: an encoding handed out is the caller's to extend or overwrite (composite keys are built by appending to
// it), and a built event is a value. Neither may change what later encodings / earlier events decode to.
func c32Aliasing(c *ev.Ctx) {
	type codec struct {
		name string
		enc  func(uint64) []byte
		dec  func([]byte) uint64
		max  uint64
	}
	codecs := []codec{
		{"bigendian16", func(v uint64) []byte { return bigendian.Uint16ToBytes(uint16(v)) }, func(b []byte) uint64 { return uint64(bigendian.BytesToUint16(b)) }, 1<<16 - 1},
		{"bigendian32", func(v uint64) []byte { return bigendian.Uint32ToBytes(uint32(v)) }, func(b []byte) uint64 { return uint64(bigendian.BytesToUint32(b)) }, 1<<32 - 1},
		{"bigendian64", func(v uint64) []byte { return bigendian.Uint64ToBytes(v) }, func(b []byte) uint64 { return bigendian.BytesToUint64(b) }, ^uint64(0)},
		{"Epoch", func(v uint64) []byte { return idx.Epoch(v).Bytes() }, func(b []byte) uint64 { return uint64(idx.BytesToEpoch(b)) }, 1<<32 - 1},
		{"Event", func(v uint64) []byte { return idx.Event(v).Bytes() }, func(b []byte) uint64 { return uint64(idx.BytesToEvent(b)) }, 1<<32 - 1},
		{"Block", func(v uint64) []byte { return idx.Block(v).Bytes() }, func(b []byte) uint64 { return uint64(idx.BytesToBlock(b)) }, ^uint64(0)},
		{"Lamport", func(v uint64) []byte { return idx.Lamport(v).Bytes() }, func(b []byte) uint64 { return uint64(idx.BytesToLamport(b)) }, 1<<32 - 1},
		{"Pack", func(v uint64) []byte { return idx.Pack(v).Bytes() }, func(b []byte) uint64 { return uint64(idx.BytesToPack(b)) }, 1<<32 - 1},
		{"ValidatorID", func(v uint64) []byte { return idx.ValidatorID(v).Bytes() }, func(b []byte) uint64 { return uint64(idx.BytesToValidatorID(b)) }, 1<<32 - 1},
		{"Frame", func(v uint64) []byte { return idx.Frame(v).Bytes() }, func(b []byte) uint64 { return uint64(idx.BytesToFrame(b)) }, 1<<32 - 1},
	}
	c.Parallel(len(codecs), 0, func(ci int) {
		cd := codecs[ci]
		r := c.Rand("alias", ci)
		// windows of consecutive values: low numbers (frames, epochs and validator ids are small in practice) and random places
		starts := []uint64{0, 250, 4090, 65530, cd.max - 600}
		for k := 0; k < 6; k++ {
			starts = append(starts, uint64(r.Int63())%(cd.max-600))
		}
		for _, s := range starts {
			const win = 520
			var held [][]byte
			for v := s; v < s+win && v <= cd.max && v >= s; v++ {
				b := cd.enc(v)
				key := append(b, 0xAA, 0xBB, 0xCC, 0xDD, 0xEE, 0xFF, 0x11, 0x22) // composite key: this index, then more
				if got := cd.dec(key[:len(b)]); got != v {
					c.Violation("round-trip", map[string]interface{}{"codec": cd.name, "value": v, "decoded_from_key_prefix": got})
					return
				}
				held = append(held, key)
				if v%3 == 0 {
					for i := range b {
						b[i] ^= 0x5a // the caller reuses the slice it was given as a scratch buffer
					}
				}
			}
			for v := s; v < s+win+2 && v <= cd.max && v >= s; v++ {
				if got := cd.dec(cd.enc(v)); got != v {
					c.Violation("encoding-changed-after-a-caller-wrote-to-an-earlier-result", map[string]interface{}{"codec": cd.name, "value": v, "decodes_to": got, "window_start": s})
					return
				}
			}
			_ = held
			c.Eval(win)
			c.Count("encodings_extended_or_overwritten_by_the_caller", win)
			c.Nontrivial(ev.Hash("alias", cd.name, s))
		}
	})
	// built events are values
	n := c.Pick(20000, 400000)
	c.Parallel(16, 0, func(w int) {
		r := c.Rand("built", w)
		for i := 0; i < n/16; i++ {
			var me dag.MutableBaseEvent
			type rec struct {
				e       *dag.BaseEvent
				ep, lam uint32
				id      string
				seq     idx.Event
				creator idx.ValidatorID
			}
			var built []rec
			for k := 0; k < 2+r.Intn(4); k++ {
				ep, lam := uint32(r.Intn(5)), uint32(r.Intn(1000))
				if r.Intn(3) == 0 {
					ep, lam = r.Uint32(), r.Uint32()
				}
				me.SetEpoch(idx.Epoch(ep))
				me.SetLamport(idx.Lamport(lam))
				me.SetSeq(idx.Event(k + 1))
				me.SetCreator(idx.ValidatorID(1 + k%3))
				if r.Intn(2) == 0 {
					// parents whose IDs carry any Lamport time, also larger ones than the event's own: the ID of the built
					// event carries what the event was given, whatever its parents say (validity is the checkers' business)
					var pm dag.MutableBaseEvent
					pm.SetEpoch(idx.Epoch(ep))
					pm.SetLamport(idx.Lamport(lam + uint32(r.Intn(50))))
					var prid [24]byte
					r.Read(prid[:4])
					pm.SetID(prid)
					me.SetParents(hash.Events{pm.ID()})
				} else {
					me.SetParents(nil)
				}
				var rid [24]byte
				r.Read(rid[:])
				e := me.Build(rid)
				built = append(built, rec{e, ep, lam, e.ID().FullID(), idx.Event(k + 1), idx.ValidatorID(1 + k%3)})
				for j, b := range built {
					id := b.e.ID()
					if uint32(id.Epoch()) != b.ep || uint32(id.Lamport()) != b.lam || id.FullID() != b.id || uint32(b.e.Epoch()) != b.ep || uint32(b.e.Lamport()) != b.lam || b.e.Seq() != b.seq || b.e.Creator() != b.creator {
						c.Violation("event-id-does-not-carry-epoch-lamport", map[string]interface{}{"why": fmt.Sprintf("event #%d built from a reused mutable event changed after build #%d", j+1, k+1),
							"built_with": fmt.Sprintf("epoch %d lamport %d seq %d id %s", b.ep, b.lam, b.seq, b.id), "now": fmt.Sprintf("epoch %d lamport %d seq %d id %s", b.e.Epoch(), b.e.Lamport(), b.e.Seq(), id.FullID())})
						return
					}
				}
			}
			c.Eval(1)
			c.Count("events_built_from_a_reused_mutable_event", int64(len(built)))
		}
	})
}

// c32SortedIDs: the library's own "sort by epoch, then Lamport, then ID" is the byte order of the IDs.
func c32SortedIDs(c *ev.Ctx) {
	n := c.Pick(20000, 400000)
	c.Parallel(16, 0, func(w int) {
		r := c.Rand("sorted", w)
		for i := 0; i < n/16; i++ {
			k := 2 + r.Intn(7)
			ids := make(hash.OrderedEvents, k)
			for j := range ids {
				var me dag.MutableBaseEvent
				ep, lam := uint32(1+r.Intn(3)), uint32(1+r.Intn(4))
				if r.Intn(4) == 0 {
					ep, lam = r.Uint32(), r.Uint32()
				}
				me.SetEpoch(idx.Epoch(ep))
				me.SetLamport(idx.Lamport(lam))
				var rid [24]byte
				r.Read(rid[:2])
				me.SetID(rid)
				ids[j] = me.ID()
			}
			ids.ByEpochAndLamport()
			for j := 1; j < k; j++ {
				a, b := ids[j-1], ids[j]
				ok := a.Epoch() < b.Epoch() || (a.Epoch() == b.Epoch() && (a.Lamport() < b.Lamport() || (a.Lamport() == b.Lamport() && bytes.Compare(a.Bytes(), b.Bytes()) <= 0)))
				if !ok {
					c.Violation("event-id-order", map[string]interface{}{"why": "ByEpochAndLamport left two IDs out of (epoch, Lamport, ID) order",
						"a": fmt.Sprintf("%d:%d %s", a.Epoch(), a.Lamport(), a.Hex()), "b": fmt.Sprintf("%d:%d %s", b.Epoch(), b.Lamport(), b.Hex())})
					return
				}
			}
			c.Eval(1)
		}
		c.Count("id_lists_sorted_by_the_library", int64(n/16))
	})
}
