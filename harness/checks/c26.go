package checks

import (
	"bytes"
	"fmt"
	"math/rand"
	"sort"
	"strings"

	"github.com/Fantom-foundation/lachesis-base/kvdb"
	"github.com/Fantom-foundation/lachesis-base/kvdb/flaggedproducer"
	"github.com/Fantom-foundation/lachesis-base/kvdb/multidb"

	"verif/ev"
	"verif/kvm"
	"verif/memdisk"
)

// C26 Multi-DB routing is deterministic and isolating.
func init() { register("C26", "exploration", runC26) }

var (
	c26recKey   = []byte{0x00, 0x01, 'r', 'e', 'c'}
	c26flushKey = []byte{0x00, 0x01, 'f', 'l', 'u', 's', 'h'}
	c26reqPool  = []string{"a", "b", "a/x", "a/x/y", "a/y", "gossip", "gossip/e", "gossip/e/1", "epoch-5", "epoch-17", "epoch-zz", "ep3/q", "ep3/r", "x-1", "x-k", "unknown", "unknown/t", "b/x", "lachesis", "lachesis/7", "lachesis/epoch/3"}
)

type c26type struct {
	disks map[multidb.TypeName]*memdisk.Disk
}

func c26producers(disks map[multidb.TypeName]*memdisk.Disk) map[multidb.TypeName]kvdb.FullDBProducer {
	out := map[multidb.TypeName]kvdb.FullDBProducer{}
	for t, d := range disks {
		out[t] = flaggedproducer.Wrap(d.Producer(), c26flushKey)
	}
	return out
}

func c26randomTable(r *rand.Rand) map[string]multidb.Route {
	types := []multidb.TypeName{"t1", "t2"}
	names := []string{"main", "aux", "db-a", "m"}
	tables := []string{"", "A", "B", "AB", "C", "Ax", "g"}
	rt := map[string]multidb.Route{"": {Type: types[r.Intn(2)], Name: []string{"", "main", "root-"}[r.Intn(3)], Table: []string{"", "", "D"}[r.Intn(3)]}}
	exact := []string{"a", "b", "a/x", "gossip", "gossip/e", "lachesis", "unknown/t", "epoch-5", "b/x"}
	for k := r.Intn(5); k > 0; k-- {
		rt[exact[r.Intn(len(exact))]] = multidb.Route{Type: types[r.Intn(2)], Name: names[r.Intn(len(names))], Table: tables[r.Intn(len(tables))], NoDrop: r.Intn(4) == 0}
	}
	pats := [][2]string{{"epoch-%d", "ep-%d"}, {"epoch-%s", "eps-%s"}, {"epoch-%d", "all-epochs"}, {"ep%d/%s", "e%d"}, {"x-%s", "x"}, {"x-%d", "xnum-%d"}, {"lachesis/%d", "lachesis-%d"}, {"lachesis/%s", "l"}, {"gossip/%s", "gossip"}}
	for k := r.Intn(4); k > 0; k-- {
		p := pats[r.Intn(len(pats))]
		rt[p[0]] = multidb.Route{Type: types[r.Intn(2)], Name: p[1], Table: tables[r.Intn(len(tables))]}
	}
	return rt
}

func c26fmtTable(rt map[string]multidb.Route) []string {
	var out []string
	for k, v := range rt {
		out = append(out, fmt.Sprintf("%q -> {%s %q table=%q nodrop=%v}", k, v.Type, v.Name, v.Table, v.NoDrop))
	}
	sort.Strings(out)
	return out
}

func runC26(c *ev.Ctx) {
	c.Rule = "random routing tables (default route, 0-4 exact routes, 0-3 pattern routes incl. pairs such as epoch-%d / epoch-%s that match the same request, NoDrop flags) over two database types backed by dirty-flag producers on in-memory disks; requests from a pool of exact, nested (a/x/y) and pattern-matching paths. " +
		"Oracle: (1) RouteOf(req) is identical across 30 producers built from the same table and across repeated calls, and (1b) identical to the sequential answer while 12 goroutines route different requests through the same %d / %s pattern routes of one producer; (2) for a random sequence of OpenDB calls, interleaved with Close+Drop of an opened store (which drops its whole database with the records in it), the outcome is predicted from the harness' own log: refused iff the same request was logged with another table or another request's table in the same database is a prefix of / prefixed by the new one; " +
		"every successfully opened store, after unique marker keys were written through all of them, shows exactly its own markers (metadata keys ignored); (3) after Flush+Close and a new producer over the same disks every logged request routes and opens as before with its markers visible; " +
		"(4) Verify() on a producer with a mutated table (other name, type, table extended, table replaced by an unrelated one, route removed or added, whole type migrated) fails iff some logged request now routes to another type, name or table. (5) opening the logged requests through the last mutated producer is refused / allowed by the same rule as (2) over the records left in the databases, and an unchanged request still shows its markers. non-trivial = distinct tables with >=1 pattern route, >=1 refused overlap, >=2 stores in one database and a mutated table that moves a logged request"
	c.Assumptions = []string{"table names are not prefixes of the metadata keys (property's exclusion)", "each database type has its own disk"}
	n := c.Pick(3000, 100000)
	c.Parallel(n, 0, func(i int) { c26Case(c, c.Rand("table", i), i) })
	for i := 0; i < c.Pick(24, 400); i++ { // one after the other: each scenario runs 12 goroutines of its own
		c26ConcurrentRoutes(c, i)
	}
}

func c26Case(c *ev.Ctx, r *rand.Rand, caseN int) {
	rt := c26randomTable(r)
	disks := map[multidb.TypeName]*memdisk.Disk{"t1": memdisk.New(), "t2": memdisk.New()}
	desc := func() map[string]interface{} {
		return map[string]interface{}{"case": caseN, "routing_table": c26fmtTable(rt)}
	}
	hasPattern := false
	for k, v := range rt {
		if strings.Contains(k, "%") || strings.Contains(v.Name, "%") {
			hasPattern = true
		}
	}
	// ---- (1) determinism across producers built from the same table
	var prods []*multidb.Producer
	for k := 0; k < 30; k++ {
		p, err := multidb.NewProducer(c26producers(disks), rt, c26recKey)
		if err != nil {
			c.Count("tables_rejected_by_constructor", 1)
			return
		}
		prods = append(prods, p)
	}
	for _, req := range c26reqPool {
		var first multidb.Route
		for k, p := range prods {
			var rr multidb.Route
			if pn, _ := ev.Try(func() { rr = p.RouteOf(req) }); pn != nil {
				m := desc()
				m["request"], m["panic"] = req, fmt.Sprint(pn)
				c.Violation("route-of-panics", m)
				return
			}
			if k == 0 {
				first = rr
				if again := p.RouteOf(req); again != rr {
					m := desc()
					m["request"] = req
					c.Violation("route-differs-between-calls", m)
					return
				}
			} else if rr != first {
				m := desc()
				m["request"], m["route_a"], m["route_b"] = req, fmt.Sprintf("%+v", first), fmt.Sprintf("%+v", rr)
				c.Violation("route-depends-on-map-iteration-order", m)
				return
			}
		}
		c.Count("routes_compared_across_30_producers", 1)
	}
	c.Eval(1)
	// ---- (2) opens, conflicts, isolation
	p := prods[0]
	type loc struct {
		T multidb.TypeName
		N string
	}
	type rec struct{ req, table string }
	logs := map[loc][]rec{}
	type opened struct {
		req     string
		route   multidb.Route
		db      kvdb.Store
		markers kvm.Model
	}
	okStores := map[string]*opened{}
	refusedOverlap := 0
	var seq []string
	for k := 0; k < 4+r.Intn(10); k++ {
		if len(okStores) > 0 && r.Intn(6) == 0 {
			// one of the opened stores is closed and dropped: that drops its whole database, records included; every
			// request living there starts from scratch (their old handles are not used any more)
			var names []string
			for q := range okStores {
				names = append(names, q)
			}
			sort.Strings(names)
			o := okStores[names[r.Intn(len(names))]]
			if !o.route.NoDrop {
				l := loc{o.route.Type, o.route.Name}
				seq = append(seq, fmt.Sprintf("Close+Drop(%q) -> database %s/%q dropped", o.req, l.T, l.N))
				if pn, _ := ev.Try(func() { _ = o.db.Close(); o.db.Drop() }); pn != nil {
					m := desc()
					m["opens"], m["panic"] = seq, fmt.Sprint(pn)
					c.Violation("drop-panics", m)
					return
				}
				for q, x := range okStores {
					if (loc{x.route.Type, x.route.Name}) == l {
						delete(okStores, q)
					}
				}
				delete(logs, l)
				c.Count("databases_dropped_between_opens", 1)
			}
		}
		req := c26reqPool[r.Intn(len(c26reqPool))]
		route := p.RouteOf(req)
		l := loc{route.Type, route.Name}
		expectErr := ""
		for _, old := range logs[l] {
			if old.req == req && old.table == route.Table {
				break
			}
			if old.req == req && old.table != route.Table {
				expectErr = "same request, other table"
				break
			}
			if strings.HasPrefix(old.table, route.Table) || strings.HasPrefix(route.Table, old.table) {
				expectErr = fmt.Sprintf("table %q overlaps table %q of request %q", route.Table, old.table, old.req)
				break
			}
		}
		var db kvdb.Store
		var err error
		if pn, _ := ev.Try(func() { db, err = p.OpenDB(req) }); pn != nil {
			m := desc()
			m["request"], m["panic"] = req, fmt.Sprint(pn)
			c.Violation("open-panics", m)
			return
		}
		seq = append(seq, fmt.Sprintf("OpenDB(%q) -> %+v err=%v", req, route, err))
		if (err != nil) != (expectErr != "") {
			m := desc()
			m["opens"], m["request"], m["expected_refusal"], m["got_error"] = seq, req, expectErr, fmt.Sprint(err)
			cls := "overlapping-table-not-refused"
			if err != nil {
				cls = "non-overlapping-request-refused"
			}
			c.Violation(cls, m)
			return
		}
		c.Count("opens_predicted", 1)
		if err != nil {
			refusedOverlap++
			continue
		}
		already := false
		for _, old := range logs[l] {
			if old.req == req {
				already = true
			}
		}
		if !already {
			logs[l] = append(logs[l], rec{req, route.Table})
		}
		o := okStores[req]
		if o == nil {
			o = &opened{req: req, route: route, markers: kvm.Model{}}
			okStores[req] = o
		}
		o.db = db
	}
	// markers through every store
	nm := 0
	for _, o := range okStores {
		for k := 0; k < 3; k++ {
			nm++
			key := []byte(fmt.Sprintf("m%02d:%s", nm, o.req))
			if r.Intn(3) == 0 {
				key = kvm.Key(r, 1, 3)
				key = append([]byte{'k'}, key...)
			}
			val := []byte(fmt.Sprintf("v%d", nm))
			if err := o.db.Put(key, val); err != nil {
				m := desc()
				m["err"] = err.Error()
				c.Violation("put-through-opened-store-fails", m)
				return
			}
			o.markers[string(key)] = val
		}
	}
	sameDB := map[loc]int{}
	checkVisible := func(o *opened, db kvdb.Store, phase string) bool {
		got, err := kvm.ReadAll(db, nil, nil, -1)
		if err != nil {
			m := desc()
			m["err"] = err.Error()
			c.Violation("iterate-through-opened-store-fails", m)
			return false
		}
		var filtered []kvm.Pair
		for _, pr := range got {
			if bytes.Equal(pr.K, c26recKey) || bytes.Equal(pr.K, c26flushKey) {
				continue
			}
			filtered = append(filtered, pr)
		}
		if why := kvm.SamePairs(filtered, o.markers.Iter(nil, nil)); why != "" {
			m := desc()
			m["opens"], m["request"], m["phase"], m["why"], m["seen"] = seq, o.req, phase, why, kvm.FmtPairs(filtered)
			c.Violation("store-sees-foreign-keys-or-loses-own", m)
			return false
		}
		c.Count("store_views_compared", 1)
		return true
	}
	for _, o := range okStores {
		sameDB[loc{o.route.Type, o.route.Name}]++
		if !checkVisible(o, o.db, "same producer") {
			return
		}
	}
	// ---- (3) restart over the same disks
	_ = p.Flush([]byte("flush-1"))
	_ = p.Close()
	p2, err := multidb.NewProducer(c26producers(disks), rt, c26recKey)
	if err != nil {
		panic(err)
	}
	for _, o := range okStores {
		if rr := p2.RouteOf(o.req); rr != o.route {
			m := desc()
			m["request"], m["before"], m["after_restart"] = o.req, fmt.Sprintf("%+v", o.route), fmt.Sprintf("%+v", rr)
			c.Violation("route-changes-after-restart", m)
			return
		}
		db, err := p2.OpenDB(o.req)
		if err != nil {
			m := desc()
			m["opens"], m["request"], m["err"] = seq, o.req, err.Error()
			c.Violation("reopen-after-restart-refused", m)
			return
		}
		if !checkVisible(o, db, "after restart") {
			return
		}
	}
	if err := p2.Verify(); err != nil {
		m := desc()
		m["err"] = err.Error()
		c.Violation("verify-fails-with-unchanged-table", m)
		return
	}
	_ = p2.Flush([]byte("flush-2"))
	_ = p2.Close()
	// ---- (4) Verify against mutated tables
	moved := false
	for k := 0; k < 3; k++ {
		rt2 := map[string]multidb.Route{}
		for a, b := range rt {
			rt2[a] = b
		}
		keys := make([]string, 0, len(rt2))
		for a := range rt2 {
			keys = append(keys, a)
		}
		sort.Strings(keys)
		victim := keys[r.Intn(len(keys))]
		switch r.Intn(7) {
		case 5: // full migration: no route references one of the types any more
			from := multidb.TypeName([]string{"t1", "t2"}[r.Intn(2)])
			for a, v := range rt2 {
				if v.Type == from {
					if from == "t1" {
						v.Type = "t2"
					} else {
						v.Type = "t1"
					}
					rt2[a] = v
				}
			}
		case 0:
			v := rt2[victim]
			v.Name += "2"
			rt2[victim] = v
		case 1:
			v := rt2[victim]
			v.Table += "Z"
			rt2[victim] = v
		case 2:
			v := rt2[victim]
			if v.Type == "t1" {
				v.Type = "t2"
			} else {
				v.Type = "t1"
			}
			rt2[victim] = v
		case 3:
			if victim != "" {
				delete(rt2, victim)
			}
		case 4: // same database, a table unrelated to the old one (neither is a prefix of the other)
			v := rt2[victim]
			v.Table = "~" + v.Table
			rt2[victim] = v
		default: // a new, more specific exact route
			rt2[c26reqPool[r.Intn(len(c26reqPool))]] = multidb.Route{Type: "t1", Name: "fresh", Table: "F"}
		}
		p3, err := multidb.NewProducer(c26producers(disks), rt2, c26recKey)
		if err != nil {
			continue
		}
		wantFail := ""
		for l, rs := range logs {
			for _, rc := range rs {
				nr := p3.RouteOf(rc.req)
				if nr.Type != l.T || nr.Name != l.N || nr.Table != rc.table {
					wantFail = fmt.Sprintf("request %q was (%s,%q,%q), now %+v", rc.req, l.T, l.N, rc.table, nr)
				}
			}
		}
		verr := p3.Verify()
		c.Count("verify_calls_predicted", 1)
		if (verr != nil) != (wantFail != "") {
			m := desc()
			m["mutated_table"], m["opens"], m["expected_failure"], m["verify_error"] = c26fmtTable(rt2), seq, wantFail, fmt.Sprint(verr)
			cls := "verify-misses-moved-request"
			if verr != nil {
				cls = "verify-fails-although-nothing-moved"
			}
			c.Violation(cls, m)
			return
		}
		if wantFail != "" {
			moved = true
		}
		if k == 2 {
			// (5) the logged requests are opened through the producer with the edited table; the outcome follows the
			// same rule as in (2), applied to the records the earlier producers left in the databases
			var reqs []string
			for _, o := range okStores {
				reqs = append(reqs, o.req)
			}
			sort.Strings(reqs)
			for _, req := range reqs {
				route := p3.RouteOf(req)
				l := loc{route.Type, route.Name}
				expectErr, sameAsBefore := "", false
				for _, old := range logs[l] {
					if old.req == req && old.table == route.Table {
						sameAsBefore = true
						break
					}
					if old.req == req && old.table != route.Table {
						expectErr = "same request, other table"
						break
					}
					if strings.HasPrefix(old.table, route.Table) || strings.HasPrefix(route.Table, old.table) {
						expectErr = fmt.Sprintf("table %q overlaps table %q of request %q", route.Table, old.table, old.req)
						break
					}
				}
				var db kvdb.Store
				var err error
				if pn, _ := ev.Try(func() { db, err = p3.OpenDB(req) }); pn != nil {
					m := desc()
					m["request"], m["panic"], m["mutated_table"] = req, fmt.Sprint(pn), c26fmtTable(rt2)
					c.Violation("open-panics", m)
					return
				}
				if (err != nil) != (expectErr != "") {
					m := desc()
					m["opens"], m["request"], m["expected_refusal"], m["got_error"], m["mutated_table"], m["phase"] = seq, req, expectErr, fmt.Sprint(err), c26fmtTable(rt2), "restart with an edited routing table"
					cls := "overlapping-table-not-refused"
					if err != nil {
						cls = "non-overlapping-request-refused"
					}
					c.Violation(cls, m)
					return
				}
				c.Count("opens_predicted_after_an_edited_restart", 1)
				if err != nil {
					continue
				}
				if sameAsBefore {
					if !checkVisible(okStores[req], db, "restart with an edited routing table") {
						return
					}
				} else {
					logs[l] = append(logs[l], rec{req, route.Table})
				}
			}
			// a moved request is now recorded in its new place too; the record in its old database still contradicts the
			// routing table, so verification keeps failing
			if wantFail != "" {
				c.Count("verify_calls_after_reopening_moved_requests", 1)
				if verr2 := p3.Verify(); verr2 == nil {
					m := desc()
					m["mutated_table"], m["opens"], m["expected_failure"], m["phase"] = c26fmtTable(rt2), seq, wantFail, "after the moved requests were opened through the edited table"
					c.Violation("verify-misses-moved-request", m)
					return
				}
			}
		}
		_ = p3.Close()
	}
	twoInOne := false
	for _, n := range sameDB {
		if n >= 2 {
			twoInOne = true
		}
	}
	if hasPattern && refusedOverlap > 0 && twoInOne && moved {
		c.Nontrivial(ev.Hash(c26fmtTable(rt), seq))
	}
	if c.WantSample() {
		m := desc()
		m["opens"] = seq
		c.Sample(m)
	}
}
