package checks

import (
	"fmt"
	"sort"

	"github.com/Fantom-foundation/lachesis-base/hash"
	"github.com/Fantom-foundation/lachesis-base/inter/idx"

	"verif/cons"
	"verif/ev"
)

// C07 Rejected and merely built events leave no trace: a "dirty" instance that additionally receives Builds
// and failing Process calls must stay observably identical to a "clean" twin fed only the valid stream.
func init() { register("C07", "exploration", runC07) }

func c07roots(in *cons.Inst, upTo idx.Frame) string {
	var out string
	for f := idx.Frame(1); f <= upTo; f++ {
		var rs []string
		for _, r := range in.Store.GetFrameRoots(f) {
			rs = append(rs, fmt.Sprintf("%d:%s", r.Slot.Validator, r.ID.String()))
		}
		sort.Strings(rs)
		out += fmt.Sprintf("f%d%v ", f, rs)
	}
	return out
}

func runC07(c *ev.Ctx) {
	c.Rule = "valid multi-epoch streams (generator of C01: forks <1/3, lag, sleeper regime, seals). Two instances with the default-size forkless-cause cache process the same stream; the dirty one additionally gets, at seeded points, bursts of 1..40 Builds (self-parent only, parent subsets, full candidate, other creators' candidates; one burst of >=256 per run) and failing Process calls of clones with fresh IDs and a wrong claimed frame (0, too high by 1/2/100, below the self-parent's frame) - preferably clones of events that would have been roots - and resubmissions of recently ACCEPTED events under their own ID with claimed frame 0 or far too high. " +
		"Now and then the dirty side's consensus object is re-created over its own index object (fresh Build counter). Oracle: every later valid event gets the same Process result on both; candidates built on BOTH instances at common points get the same frame; newly emitted blocks are identical after every event; GetFrameRoots(f) is identical (as a set) for all frames after every 10th event and at the end and never contains a rejected event; epochs, validators and decided frames agree. " +
		"non-trivial = distinct (run) with >=1 rejected root candidate and >=1 block decided afterwards"
	c.Assumptions = []string{"the application does not store rejected events (the harness removes them from its event source)", "cheaters < 1/3"}
	nR := c.Pick(200, 3000)
	c.Parallel(nR, 0, func(i int) {
		r := c.Rand("run", i)
		o := &campOpts{maxN: 8, minEvents: 40, maxEvents: c.Pick(150, 350), maxEpochs: 2, cheat: cons.CheatBelowThird}
		cfg := genCfgFor(r, i, o)
		if cfg.EventsPer > o.maxEvents {
			cfg.EventsPer = o.maxEvents
		}
		d, _, err := cons.Generate(r, cfg)
		if err != nil {
			c.Count("other_property_discrepancy_built-event-rejected", 1)
			return
		}
		policy := cfg.Policy()
		icfg := cons.InstCfg{Index: cons.IdxDefault}
		if i%3 == 0 {
			icfg.Index = cons.IdxLite
		}
		clean := cons.NewInst(cfg.Plans[0].Epoch, cfg.Plans[0].Validators(), policy, icfg)
		dirty := cons.NewInst(cfg.Plans[0].Epoch, cfg.Plans[0].Validators(), policy, icfg)
		desc := func() map[string]interface{} { return map[string]interface{}{"case": i, "dag": describeDAG(d)} }
		rejected := map[hash.Event]bool{}
		rejectedRoots, blocksAfterReject := 0, 0
		bigBurstAt := r.Intn(d.NumEvents() + 1)
		n := 0
		builds, fails := 0, 0
		resubmitted := 0
		_ = resubmitted
		for _, ed := range d.Epochs {
			plan := ed.Plan
			byID := map[hash.Event]*cons.Ev{}
			var known []*cons.Ev
			maxFrame := idx.Frame(1)
			for _, e := range ed.Events {
				n++
				if clean.Epoch() != plan.Epoch || dirty.Epoch() != plan.Epoch {
					if clean.Epoch() != dirty.Epoch() {
						m := desc()
						m["clean_epoch"], m["dirty_epoch"] = clean.Epoch(), dirty.Epoch()
						c.Violation("epochs-differ", m)
						return
					}
					continue
				}
				var sp *cons.Ev
				if e.SelfParent() != nil {
					sp = byID[*e.SelfParent()]
				}
				var others []*cons.Ev
				for k, p := range e.Parents() {
					if k == 0 && sp != nil {
						continue
					}
					others = append(others, byID[p])
				}
				// ---- dirt: builds
				K := 0
				firstBurstRun := i%2 == 0 // the long burst is the first thing the dirty instance ever builds
				if r.Intn(6) == 0 && !(firstBurstRun && n < bigBurstAt) {
					K = 1 + r.Intn(40)
				}
				if n == bigBurstAt {
					K = 256 + r.Intn(60)
					if firstBurstRun {
						K = []int{255, 255, 511}[r.Intn(3)] // the common build right after is build #256 / #512
					}
				}
				for k := 0; k < K; k++ {
					var cand *cons.Ev
					switch r.Intn(4) {
					case 0:
						cand = c04candidate(plan.Epoch, e.Creator(), sp, nil)
						if r.Intn(2) == 0 {
							cand.SetLamport(e.Lamport()) // same Lamport as the real event, fewer parents
						}
					case 1:
						var sub []*cons.Ev
						for _, x := range others {
							if r.Intn(2) == 0 {
								sub = append(sub, x)
							}
						}
						cand = c04candidate(plan.Epoch, e.Creator(), sp, sub)
					case 2:
						cand = c04candidate(plan.Epoch, e.Creator(), sp, others)
					default:
						if len(known) > 0 {
							o := known[r.Intn(len(known))]
							cand = c04candidate(plan.Epoch, o.Creator(), o, nil) // a fork candidate of somebody
						} else {
							cand = c04candidate(plan.Epoch, e.Creator(), nil, nil)
						}
					}
					if err := dirty.Build(cand); err != nil {
						m := desc()
						m["error"] = err.Error()
						c.Violation("build-failed", m)
						return
					}
					builds++
				}
				// ---- a candidate with all parents is built and NOT submitted; the very next call submits another event of the
				// same creator and seq (fewer parents) that claims the frame just built. Whatever the answer is, it must be the
				// answer of an instance that never saw that Build (a throw-away restarted copy of the clean side)
				if sp != nil && e.Frame() > sp.Frame() && len(others) > 0 && r.Intn(6) == 0 {
					X := c04candidate(plan.Epoch, e.Creator(), sp, others)
					if err := dirty.Build(X); err != nil {
						m := desc()
						m["error"] = err.Error()
						c.Violation("build-failed", m)
						return
					}
					builds++
					Y := c04candidate(plan.Epoch, e.Creator(), sp, nil) // self-parent only: it can hardly have reached the frame it claims
					Y.SetFrame(X.Frame())
					Y.SetHashID(uint64(n)*31 + 77)
					Y.Name = e.Name + "-claiming-the-built-frame"
					var probe *cons.Inst
					if p, _ := ev.Try(func() { probe = clean.Restart() }); p != nil {
						c.Count("other_property_discrepancy_restart-failed", 1)
						return
					}
					errC, errD := probe.Process(Y), dirty.Process(Y)
					c.Count("events_claiming_a_frame_that_was_just_built", 1)
					if (errC == nil) != (errD == nil) {
						m := desc()
						m["event"], m["without_the_build"], m["after_the_build"], m["built_frame"] = Y.Name, fmt.Sprint(errC), fmt.Sprint(errD), X.Frame()
						c.Violation("later-event-accepted-differently", m)
						return
					}
					if errD == nil {
						c.Count("runs_ended_by_an_accepted_sibling", 1)
						return // a sibling of e went in (legitimately, on both sides): the stream would now contain a fork of an honest validator
					}
					fails++
				}
				// ---- the consensus object of the dirty side is re-created over the same index object (the Build counter starts
				// again, so later candidates get the temporary IDs of the never-submitted ones above)
				if builds > 0 && r.Intn(12) == 0 {
					if p, _ := ev.Try(func() { dirty = dirty.RestartKeepIndex() }); p != nil {
						m := desc()
						m["panic"] = fmt.Sprint(p)
						c.Violation("restart-keeping-the-index-fails", m)
						return
					}
					c.Count("dirty_side_recreated_over_the_same_index", 1)
				}
				// ---- dirt: failing Process calls
				if r.Intn(5) == 0 {
					for k := 0; k < 1+r.Intn(3); k++ {
						bad := e.Clone()
						spf := idx.Frame(0)
						if sp != nil {
							spf = sp.Frame()
						}
						choices := []idx.Frame{0, e.Frame() + 1, e.Frame() + 2, e.Frame() + 100}
						if spf >= 2 {
							choices = append(choices, spf-1)
						}
						bad.SetFrame(choices[r.Intn(len(choices))])
						bad.SetHashID(uint64(n*10+k) + 555)
						nb := len(dirty.Blocks)
						perr := dirty.Process(bad)
						if perr == nil || dirty.Crit != nil {
							c.Count("other_property_discrepancy_wrong-frame-accepted-or-crit", 1)
							return
						}
						if len(dirty.Blocks) != nb {
							m := desc()
							m["event"] = e.Name
							c.Violation("failed-process-emitted-a-block", m)
							return
						}
						rejected[bad.ID()] = true
						fails++
						if sp == nil || sp.Frame() != e.Frame() {
							rejectedRoots++
						}
					}
				}
				// ---- dirt: an event that was accepted earlier is submitted again with a wrong claimed frame (same ID)
				if len(known) > 0 && r.Intn(6) == 0 {
					old := known[len(known)-1-r.Intn(minI(len(known), 12))]
					dup := old.Clone()
					dup.SetFrame([]idx.Frame{0, old.Frame() + 40, old.Frame() + 100}[r.Intn(3)]) // never a frame that the event could claim even as its own root
					nb := len(dirty.Blocks)
					perr := dirty.ProcessNoStore(dup)
					if perr == nil || dirty.Crit != nil {
						c.Count("other_property_discrepancy_wrong-frame-accepted-or-crit", 1)
						return
					}
					if len(dirty.Blocks) != nb {
						m := desc()
						m["event"] = old.Name
						c.Violation("failed-process-emitted-a-block", m)
						return
					}
					fails++
					resubmitted++
					c.Count("accepted_events_resubmitted_with_a_wrong_frame", 1)
				}
				// ---- common build
				if (r.Intn(4) == 0 && !(firstBurstRun && n < bigBurstAt)) || K >= 255 {
					c1 := c04candidate(plan.Epoch, e.Creator(), sp, others)
					c2 := c04candidate(plan.Epoch, e.Creator(), sp, others)
					if r.Intn(3) == 0 {
						// the dirty side builds a draft first and then rebuilds the same object with all parents
						draft := c04candidate(plan.Epoch, e.Creator(), sp, nil)
						draft.SetLamport(c2.Lamport())
						if err := dirty.Build(draft); err == nil {
							draft.SetParents(c2.Parents())
							c2 = draft
							builds++
						}
					}
					e1, e2 := clean.Build(c1), dirty.Build(c2)
					c.Count("common_builds_compared", 1)
					if (e1 == nil) != (e2 == nil) || c1.Frame() != c2.Frame() {
						m := desc()
						m["event"], m["clean_frame"], m["dirty_frame"], m["dirty_builds_so_far"], m["dirty_failed_processes_so_far"], m["burst_before"] = e.Name, c1.Frame(), c2.Frame(), builds, fails, K
						cls := "later-build-frame-differs"
						if K >= 255 {
							cls = "build-frame-depends-on-earlier-builds"
						}
						c.Violation(cls, m)
						return
					}
				}
				// ---- the valid event on both
				nb1, nb2 := len(clean.Blocks), len(dirty.Blocks)
				r1, r2 := clean.Process(e), dirty.Process(e)
				if (r1 == nil) != (r2 == nil) {
					m := desc()
					m["event"], m["clean"], m["dirty"] = e.Name, fmt.Sprint(r1), fmt.Sprint(r2)
					c.Violation("later-event-accepted-differently", m)
					return
				}
				if r1 != nil {
					c.Count("other_property_discrepancy_"+cons.DEventRejected, 1)
					return
				}
				if ok, why := cons.BlocksEqual(clean.Blocks[nb1:], dirty.Blocks[nb2:]); !ok {
					m := desc()
					m["event"], m["why"] = e.Name, why
					c.Violation("blocks-differ", m)
					return
				}
				if len(clean.Blocks) > nb1 && rejectedRoots > 0 {
					blocksAfterReject += len(clean.Blocks) - nb1
				}
				byID[e.ID()] = e
				known = append(known, e)
				if e.Frame() > maxFrame {
					maxFrame = e.Frame()
				}
				if clean.Epoch() != dirty.Epoch() || clean.Store.GetLastDecidedFrame() != dirty.Store.GetLastDecidedFrame() || clean.Store.GetValidators().String() != dirty.Store.GetValidators().String() {
					m := desc()
					m["event"] = e.Name
					c.Violation("state-differs", m)
					return
				}
				if clean.Epoch() == plan.Epoch && (n%10 == 0 || e == ed.Events[len(ed.Events)-1]) {
					a, b := c07roots(clean, maxFrame+1), c07roots(dirty, maxFrame+1)
					c.Count("root_registry_comparisons", 1)
					if a != b {
						m := desc()
						m["event"], m["clean_roots"], m["dirty_roots"] = e.Name, a, b
						c.Violation("frame-roots-differ", m)
						return
					}
					for f := idx.Frame(1); f <= maxFrame+1; f++ {
						for _, rt := range dirty.Store.GetFrameRoots(f) {
							if rejected[rt.ID] {
								m := desc()
								m["frame"] = f
								c.Violation("rejected-event-registered-as-root", m)
								return
							}
						}
					}
				}
			}
		}
		c.Eval(1)
		c.Count("speculative_builds_on_dirty", int64(builds))
		c.Count("failed_process_calls_on_dirty", int64(fails))
		c.Count("rejected_root_candidates", int64(rejectedRoots))
		c.Count("blocks_compared", int64(len(clean.Blocks)))
		if rejectedRoots > 0 && blocksAfterReject > 0 {
			c.Nontrivial(d.FP)
		}
		if c.WantSample() {
			s := describeDAG(d)
			s["case"], s["builds_on_dirty"], s["failed_processes_on_dirty"] = i, builds, fails
			c.Sample(s)
		}
	})
}
