package checks

import (
	"bytes"
	"fmt"
	"math/rand"

	"github.com/Fantom-foundation/lachesis-base/inter/idx"
	"github.com/Fantom-foundation/lachesis-base/inter/pos"
	"github.com/ethereum/go-ethereum/rlp"

	"verif/ev"
)

func c12randMap(r *rand.Rand, ids int) map[idx.ValidatorID]uint64 {
	m := map[idx.ValidatorID]uint64{}
	k := 1 + r.Intn(6)
	for j := 0; j < k; j++ {
		m[idx.ValidatorID(1+r.Intn(ids))] = uint64(1 + r.Intn(1000))
	}
	return m
}

func c12build(m map[idx.ValidatorID]uint64) (*pos.ValidatorsBuilder, *pos.Validators) {
	b := pos.NewBuilder()
	for id, w := range m {
		b.Set(id, pos.Weight(w))
	}
	return &b, b.Build()
}

// c12mutate edits a builder (removes, adds, re-weights) and the model alongside; it never empties the model.
func c12mutate(r *rand.Rand, b pos.ValidatorsBuilder, m map[idx.ValidatorID]uint64) (log []string) {
	for j := 0; j < 1+r.Intn(4); j++ {
		id := idx.ValidatorID(1 + r.Intn(9))
		w := uint64(r.Intn(1500))
		if _, ok := m[id]; ok && len(m) == 1 && w == 0 {
			w = 7
		}
		b.Set(id, pos.Weight(w))
		if w == 0 {
			delete(m, id)
		} else {
			m[id] = w
		}
		log = append(log, fmt.Sprintf("Set(%d,%d)", id, w))
	}
	return
}

func copyMap(m map[idx.ValidatorID]uint64) map[idx.ValidatorID]uint64 {
	o := map[idx.ValidatorID]uint64{}
	for k, v := range m {
		o[k] = v
	}
	return o
}

// c12Aliasing: a built set is a value - it depends only on the pairs it was built from. Editing the builder it came from,
// a builder taken from it (or from a copy of it), and decoding into a destination that already holds another set must
// all leave every earlier set untouched and give the new set exactly the new pairs.
func c12Aliasing(c *ev.Ctx, r *rand.Rand, caseN int) {
	m := c12randMap(r, 7)
	bp, v := c12build(m)
	want := c12canon(m)
	enc0, err := rlp.EncodeToBytes(v)
	if err != nil {
		c.Violation("rlp-encode-fails", map[string]interface{}{"case": caseN, "err": err.Error()})
		return
	}
	c.Eval(1)
	still := func(step string, log []string) bool {
		why := ""
		p, _ := ev.Try(func() {
			why = c12check(v, want)
			if why == "" {
				enc1, _ := rlp.EncodeToBytes(v)
				if !bytes.Equal(enc0, enc1) {
					why = "RLP encoding changed"
				}
			}
			if why == "" {
				wc := v.NewCounter()
				for _, id := range v.IDs() {
					wc.Count(id)
				}
				if !wc.HasQuorum() || wc.Sum() != v.TotalWeight() {
					why = fmt.Sprintf("counting the whole set gives %d of %d, quorum=%v", wc.Sum(), v.TotalWeight(), wc.HasQuorum())
				}
			}
		})
		if p != nil {
			why = fmt.Sprint("panic: ", p)
		}
		if why != "" {
			c.Violation("built-set-changes-when-a-builder-is-edited", map[string]interface{}{"case": caseN, "pairs": fmt.Sprint(want), "step": step, "edits": log, "why": why})
			return false
		}
		return true
	}
	// (1) the builder the set came from is used again
	m1 := copyMap(m)
	log := c12mutate(r, *bp, m1)
	if !still("edit of the builder the set was built from", log) {
		return
	}
	v1 := bp.Build()
	if why := c12check(v1, c12canon(m1)); why != "" {
		c.Violation("canonical-form-wrong", map[string]interface{}{"case": caseN, "step": "second Build of a reused builder", "edits": log, "why": why})
		return
	}
	// (2) a builder taken from the set
	m2 := copyMap(m)
	nb := v.Builder()
	log = c12mutate(r, nb, m2)
	if !still("edit of set.Builder()", log) {
		return
	}
	v2 := nb.Build()
	if why := c12check(v2, c12canon(m2)); why != "" {
		c.Violation("canonical-form-wrong", map[string]interface{}{"case": caseN, "step": "Build of set.Builder() after edits", "edits": log, "why": why})
		return
	}
	// (3) a builder taken from a copy
	cp := v.Copy()
	m3 := copyMap(m)
	cb := cp.Builder()
	log = c12mutate(r, cb, m3)
	if !still("edit of set.Copy().Builder()", log) {
		return
	}
	if why := c12check(cp, want); why != "" {
		c.Violation("built-set-changes-when-a-builder-is-edited", map[string]interface{}{"case": caseN, "pairs": fmt.Sprint(want), "step": "the copy itself after its builder was edited", "edits": log, "why": why})
		return
	}
	c.Count("builder_reuse_sequences", 1)
	// (4) decoding into a destination that already holds another set
	mo := c12randMap(r, 9)
	_, dst := c12build(mo)
	if err := rlp.DecodeBytes(enc0, dst); err != nil {
		c.Violation("rlp-decode-fails", map[string]interface{}{"case": caseN, "err": err.Error(), "destination": "populated"})
		return
	}
	if why := c12check(dst, want); why != "" {
		c.Violation("rlp-round-trip-changes-set", map[string]interface{}{"case": caseN, "pairs": fmt.Sprint(want), "destination_held": fmt.Sprint(c12canon(mo)), "why": why})
		return
	}
	type holder struct{ V *pos.Validators }
	h := holder{V: dst}
	encH, _ := rlp.EncodeToBytes(&holder{V: v1})
	if err := rlp.DecodeBytes(encH, &h); err != nil {
		c.Violation("rlp-decode-fails", map[string]interface{}{"case": caseN, "err": err.Error(), "destination": "struct field holding a set"})
		return
	}
	if why := c12check(h.V, c12canon(m1)); why != "" {
		c.Violation("rlp-round-trip-changes-set", map[string]interface{}{"case": caseN, "pairs": fmt.Sprint(c12canon(m1)), "destination": "struct field holding a set", "why": why})
		return
	}
	c.Count("decodes_into_populated_destination", 2)
	differs := len(mo) != len(m)
	for id := range mo {
		if _, ok := m[id]; !ok {
			differs = true
		}
	}
	if differs {
		c.Nontrivial(ev.Hash("alias", fmt.Sprint(want), fmt.Sprint(c12canon(mo))))
	}
}

// c12HandMadeRLP: the decoder is an input surface of its own - lists that no encoder produced (any order, repeated
// IDs, zero weights) must still decode to a consistent set: the pairs applied in list order (a later entry replaces an
// earlier one, weight 0 removes), in canonical order, with matching total, and countable as a whole.
func c12HandMadeRLP(c *ev.Ctx, r *rand.Rand, caseN int) {
	type pair struct {
		ID idx.ValidatorID
		W  pos.Weight
	}
	var list []pair
	m := map[idx.ValidatorID]uint64{}
	for j := 0; j < 1+r.Intn(7); j++ {
		p := pair{idx.ValidatorID(1 + r.Intn(5)), pos.Weight(r.Intn(6))}
		if r.Intn(3) == 0 {
			p.W = pos.Weight(1 + r.Intn(1000))
		}
		list = append(list, p)
		if p.W == 0 {
			delete(m, p.ID)
		} else {
			m[p.ID] = uint64(p.W)
		}
	}
	if len(m) == 0 {
		list = append(list, pair{9, 3})
		m[9] = 3
	}
	enc, err := rlp.EncodeToBytes(list)
	if err != nil {
		panic(err)
	}
	c.Eval(1)
	var v pos.Validators
	why := ""
	p, _ := ev.Try(func() {
		if err := rlp.DecodeBytes(enc, &v); err != nil {
			why = "decode error: " + err.Error()
			return
		}
		if why = c12check(&v, c12canon(m)); why != "" {
			return
		}
		wc := v.NewCounter()
		for id := range m {
			if !wc.Count(id) {
				why = fmt.Sprintf("member %d refused by the counter", id)
				return
			}
		}
		for i := idx.Validator(0); i < v.Len(); i++ {
			if wc.CountByIdx(i) {
				why = fmt.Sprintf("index %d counted although every member was counted already", i)
				return
			}
		}
		if !wc.HasQuorum() || wc.Sum() != v.TotalWeight() || uint64(v.Quorum()) != uint64(v.TotalWeight())*2/3+1 {
			why = fmt.Sprintf("whole set counts %d of total %d, quorum %d (reached: %v)", wc.Sum(), v.TotalWeight(), v.Quorum(), wc.HasQuorum())
		}
	})
	if p != nil {
		why = fmt.Sprint("panic: ", p)
	}
	if why != "" {
		c.Violation("rlp-round-trip-changes-set", map[string]interface{}{"case": caseN, "hand_made_list": fmt.Sprint(list), "expected_pairs": fmt.Sprint(c12canon(m)), "why": why})
		return
	}
	c.Count("hand_made_lists_decoded", 1)
	if len(list) != len(m) {
		c.Nontrivial(ev.Hash("hm", fmt.Sprint(list)))
	}
}
