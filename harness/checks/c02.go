package checks

import (
	"math/rand"

	"verif/cons"
	"verif/ev"
)

// C02 Each block delivers exactly the new ancestry of its Atropos.
func init() { register("C02", "exploration", runC02) }

func runC02(c *ev.Ctx) {
	c.Rule = "same generator and orders as C01. Oracle per block: the set of events handed to ApplyEvent equals (ancestors-or-self of the Atropos by the reference's graph closure) minus everything delivered by earlier blocks of the epoch; " +
		"no event is applied twice in an epoch (within or across blocks); every delivered event's parents were delivered in the same or an earlier block; frames are 1,2,3,... per epoch; the Atropos is a root of the block's frame by the reference and (every second run) by the store's GetFrameRoots. " +
		"Plus long epochs of more than 65536 frames (one validator; and a 3:1 pair with the light validator joining now and then) checked by the same delivery rules with ancestry computed by a DFS that stops at delivered events (no reference election). " +
		"Plus six scripted DAGs (seven equal validators) in which two consecutive Atropoi do not observe one another and the later one has the smaller Lamport time, two of them with a light validator whose fork twins go one into each of the two Atropoi; same delivery oracle (DFS that stops at delivered events). Plus same-epoch Reset: an instance that delivered an epoch is Reset to that same epoch and set and fed the same events again (twice, two orders): every block hands over the same events as the first time. " +
		"non-trivial = distinct DAG fingerprint with >=3 blocks of which >=1 delivers more than one event"
	c.Assumptions = []string{"reference ancestry = transitive closure over the parents lists", "cheaters < 1/3"}
	o := &campOpts{nDAGs: c.Pick(300, 6000), orders: c.Pick(4, 6), maxN: c.Pick(10, 16), minEvents: 60, maxEvents: c.Pick(350, 700), maxEpochs: 3,
		cheat: cons.CheatBelowThird, probeRoots: true,
		tweak: func(r *rand.Rand, i int, cfg *cons.GenCfg) *cons.GenCfg {
			if i%10 != 8 {
				return nil
			}
			// slow spread with a sleeper: 6-8 validators, one other parent per event, the canonical-first validator wakes up
			// now and then linking to every tip (a root with a Lamport time above everything) and falls asleep again, while
			// some of the others go on for a while without it: consecutive Atropoi need not observe one another
			plans := cons.RandomPlans(r, 1, -(6 + r.Intn(3)), r.Intn(2) == 0, cons.CheatNone)
			for k := range plans[0].Lag {
				plans[0].Lag[k] = 0
			}
			return &cons.GenCfg{Plans: plans, EventsPer: 70 * len(plans[0].IDs), MinParents: 1, MaxParents: 2, Sleeper: true}
		},
		mine: map[string]bool{cons.DDelivered: true, cons.DDeliveredTwice: true, cons.DFrameNumber: true, cons.DAtroposNotRoot: true, cons.DParentLater: true, cons.DCrit: true},
		nontrivial: func(d *cons.DAG, ts []*cons.Trace) bool {
			for _, t := range ts {
				if len(t.Blocks) >= 3 && t.MultiEv >= 1 {
					return true
				}
			}
			return false
		}}
	// one epoch with more than 65536 frames (frame numbers and confirmed-on marks beyond 16 bits), checked without the reference
	c.Parallel(6, 0, func(i int) { c02Scripted(c, i) })
	nLong := 2
	c.Parallel(nLong, 0, func(i int) { c02LongEpoch(c, i, 66200+3000*i) })
	c.Parallel(c.Pick(300, 5000), 0, func(i int) { c02ResetReplay(c, i) })
	runCampaign(c, o)
}
