package checks

import (
	"errors"
	"fmt"

	"github.com/Fantom-foundation/lachesis-base/kvdb"
	"github.com/Fantom-foundation/lachesis-base/kvdb/cachedproducer"
	"github.com/Fantom-foundation/lachesis-base/kvdb/memorydb"

	"verif/ev"
)

// C27 Caching producer reference-counts opens.
func init() { register("C27", "exploration", runC27) }

type c27store struct {
	kvdb.Store
	name   string
	gen    int
	closes int
	drops  int
	p      *c27producer
}

func (s *c27store) Close() error {
	s.closes++
	s.p.closeCalls++
	if s.closes > 1 {
		return errors.New("underlying store closed twice")
	}
	return nil
}
func (s *c27store) Drop() { s.drops++; s.p.dropCalls++ }

type c27producer struct {
	opens, closeCalls, dropCalls int
	stores                       []*c27store
}

func (p *c27producer) OpenDB(name string) (kvdb.Store, error) {
	p.opens++
	s := &c27store{Store: memorydb.New(), name: name, gen: p.opens, p: p}
	p.stores = append(p.stores, s)
	return s, nil
}
func (p *c27producer) Names() []string                                 { return nil }
func (p *c27producer) NotFlushedSizeEst() int                          { return 0 }
func (p *c27producer) Flush(id []byte) error                           { return nil }
func (p *c27producer) Initialize(n []string, f []byte) ([]byte, error) { return f, nil }
func (p *c27producer) Close() error                                    { return nil }

func runC27(c *ev.Ctx) {
	c.Rule = "random sequences of 40 open/close/drop operations over 3 names on cachedproducer.Wrap and cachedproducer.WrapAll over a counting producer; model = per-name reference count and a 'drop allowed since the last open' flag. " +
		"Oracle after every operation: a re-open while open returns the identical store and does not reach the underlying producer; the underlying Close runs exactly when the count returns to zero and never otherwise; a Close with count zero returns an error; the underlying Drop runs at most once between two opens. " +
		"non-trivial = distinct sequences in which a name was opened >=3 times concurrently, fully closed, closed once more (error expected), re-opened, and dropped twice"
	c.Assumptions = []string{"handles are used while their generation is open; the extra Close is issued through the last handle of the name"}
	n := c.Pick(20000, 500000)
	c.Parallel(n, 0, func(i int) {
		r := c.Rand("seq", i)
		under := &c27producer{}
		var open func(string) (kvdb.Store, error)
		which := "Wrap"
		if i%2 == 0 {
			p := cachedproducer.Wrap(under)
			open = p.OpenDB
		} else {
			which = "WrapAll"
			p := cachedproducer.WrapAll(under)
			open = p.OpenDB
		}
		names := []string{"a", "b", "c"}
		ref := map[string]int{}
		dropOK := map[string]bool{}
		last := map[string]kvdb.Store{}
		maxRef, extraClose, reopened, doubleDrop := 0, false, false, false
		everClosed := map[string]bool{}
		var log []string
		fail := func(class, why string) {
			c.Violation(class, map[string]interface{}{"case": i, "wrapper": which, "ops": log, "why": why})
		}
		for op := 0; op < 40; op++ {
			nm := names[r.Intn(3)]
			o0, c0, d0 := under.opens, under.closeCalls, under.dropCalls
			switch k := r.Intn(10); {
			case k < 4:
				log = append(log, "open "+nm)
				var s kvdb.Store
				var err error
				if p, _ := ev.Try(func() { s, err = open(nm) }); p != nil {
					cls := "open-panics"
					if which == "Wrap" && op == 0 || fmt.Sprint(p) == "assignment to entry in nil map" {
						cls = "open-panics-nil-map"
					}
					fail(cls, fmt.Sprint(p))
					return
				}
				if err != nil {
					fail("open-fails", err.Error())
					return
				}
				if ref[nm] > 0 {
					if s != last[nm] {
						fail("reopen-returns-different-store", nm)
						return
					}
					if under.opens != o0 {
						fail("reopen-reaches-underlying-producer", nm)
						return
					}
				} else {
					if under.opens != o0+1 {
						fail("first-open-does-not-open-underlying", nm)
						return
					}
					if everClosed[nm] {
						reopened = true
					}
				}
				ref[nm]++
				if ref[nm] > maxRef {
					maxRef = ref[nm]
				}
				dropOK[nm] = true
				last[nm] = s
			case k < 8:
				if last[nm] == nil {
					continue
				}
				log = append(log, "close "+nm)
				var err error
				if p, _ := ev.Try(func() { err = last[nm].Close() }); p != nil {
					fail("close-panics", fmt.Sprint(p))
					return
				}
				if ref[nm] == 0 {
					extraClose = true
					if err == nil {
						fail("extra-close-not-reported", nm)
						return
					}
					if under.closeCalls != c0 {
						fail("extra-close-reaches-underlying", nm)
						return
					}
				} else {
					if err != nil {
						fail("close-fails", err.Error())
						return
					}
					ref[nm]--
					want := 0
					if ref[nm] == 0 {
						want = 1
						everClosed[nm] = true
					}
					if under.closeCalls-c0 != want {
						fail("underlying-close-count-wrong", fmt.Sprintf("%s: underlying Close ran %d times, want %d (count now %d)", nm, under.closeCalls-c0, want, ref[nm]))
						return
					}
				}
			default:
				if last[nm] == nil {
					continue
				}
				log = append(log, "drop "+nm)
				if p, _ := ev.Try(func() { last[nm].Drop() }); p != nil {
					fail("drop-panics", fmt.Sprint(p))
					return
				}
				want := 0
				if dropOK[nm] {
					want = 1
				} else {
					doubleDrop = true
				}
				dropOK[nm] = false
				if under.dropCalls-d0 != want {
					fail("underlying-drop-count-wrong", fmt.Sprintf("%s: underlying Drop ran %d times, want %d", nm, under.dropCalls-d0, want))
					return
				}
			}
			c.Count("operations_checked", 1)
		}
		for _, s := range under.stores {
			if s.closes > 1 {
				fail("underlying-closed-twice", s.name)
				return
			}
		}
		c.Eval(1)
		if maxRef >= 3 && extraClose && reopened && doubleDrop {
			c.Nontrivial(ev.Hash(which, log))
		}
		if c.WantSample() {
			c.Sample(map[string]interface{}{"case": i, "wrapper": which, "ops": log})
		}
	})
}
