package checks

import (
	"errors"
	"fmt"
	"sync"
	"time"

	"github.com/Fantom-foundation/lachesis-base/kvdb"
	"github.com/Fantom-foundation/lachesis-base/kvdb/cachedproducer"
	"github.com/Fantom-foundation/lachesis-base/kvdb/memorydb"

	"verif/ev"
)

// C27 Caching producer reference-counts opens.
func init() { register("C27", "exploration", runC27) }

type c27store struct {
	kvdb.Store
	name   string
	gen    int
	closes int
	drops  int
	p      *c27producer
}

func (s *c27store) Close() error {
	s.closes++
	s.p.closeCalls++
	if s.p.failCloseNext {
		s.p.failCloseNext = false
		return errors.New("injected: underlying Close reports an I/O error")
	}
	if s.closes > 1 {
		return errors.New("underlying store closed twice")
	}
	return nil
}
func (s *c27store) Drop() { s.drops++; s.p.dropCalls++ }

type c27producer struct {
	failNext                     bool // fault injection: the next underlying OpenDB returns an error
	failCloseNext                bool // fault injection: the next underlying Close returns an error (it still counts as the close)
	failedOpens                  int
	opens, closeCalls, dropCalls int
	stores                       []*c27store
}

func (p *c27producer) OpenDB(name string) (kvdb.Store, error) {
	if p.failNext {
		p.failNext = false
		p.failedOpens++
		return nil, errors.New("injected: underlying OpenDB fails")
	}
	p.opens++
	s := &c27store{Store: memorydb.New(), name: name, gen: p.opens, p: p}
	p.stores = append(p.stores, s)
	return s, nil
}
func (p *c27producer) Names() []string                                 { return nil }
func (p *c27producer) NotFlushedSizeEst() int                          { return 0 }
func (p *c27producer) Flush(id []byte) error                           { return nil }
func (p *c27producer) Initialize(n []string, f []byte) ([]byte, error) { return f, nil }
func (p *c27producer) Close() error                                    { return nil }

func runC27(c *ev.Ctx) {
	c.Rule = "random sequences of 40 open/close/drop operations over 3 names on cachedproducer.Wrap and cachedproducer.WrapAll over a counting producer whose OpenDB is made to fail for one in five first opens (the error must come through and leave the count untouched) and whose Close is made to fail for one in five last closes (the error comes through, the store counts as closed); model = per-name reference count and a 'drop allowed since the last open' flag. " +
		"Oracle after every operation: a re-open while open returns the identical store and does not reach the underlying producer; the underlying Close runs exactly when the count returns to zero and never otherwise; a Close with count zero returns an error; the underlying Drop runs at most once between two opens. " +
		"Plus one name opened 255..65537 times and closed as often (same store, one underlying open, one underlying close at the very last close, then an error). Plus overlapping drops: the underlying Drop of the harness store blocks on a gate; while the first Drop is inside it, 1-3 further Drop calls are started (same or another handle); after the gate opens the underlying Drop must have run exactly once. " +
		"non-trivial = distinct sequences in which a name was opened >=3 times concurrently, fully closed, closed once more (error expected), re-opened, and dropped twice"
	c.Assumptions = []string{"handles are used while their generation is open; the extra Close is issued through the last handle of the name"}
	c.Parallel(c.Pick(48, 480), 0, func(i int) { c27OverlappingDrops(c, i) })
	c.Parallel(22, 0, func(i int) { c27ManyOpens(c, i) })
	n := c.Pick(20000, 500000)
	c.Parallel(n, 0, func(i int) {
		r := c.Rand("seq", i)
		under := &c27producer{}
		var open func(string) (kvdb.Store, error)
		which := "Wrap"
		if i%2 == 0 {
			p := cachedproducer.Wrap(under)
			open = p.OpenDB
		} else {
			which = "WrapAll"
			p := cachedproducer.WrapAll(under)
			open = p.OpenDB
		}
		names := []string{"a", "b", "c"}
		ref := map[string]int{}
		dropOK := map[string]bool{}
		last := map[string]kvdb.Store{}
		maxRef, extraClose, reopened, doubleDrop := 0, false, false, false
		failedOpens := 0
		everClosed := map[string]bool{}
		var log []string
		fail := func(class, why string) {
			c.Violation(class, map[string]interface{}{"case": i, "wrapper": which, "ops": log, "why": why})
		}
		for op := 0; op < 40; op++ {
			nm := names[r.Intn(3)]
			o0, c0, d0 := under.opens, under.closeCalls, under.dropCalls
			switch k := r.Intn(10); {
			case k < 4:
				if ref[nm] == 0 && r.Intn(5) == 0 {
					// the underlying producer refuses this open: the error comes through and nothing is counted
					log = append(log, "open "+nm+" (underlying OpenDB fails)")
					under.failNext = true
					var ferr error
					if p, _ := ev.Try(func() { _, ferr = open(nm) }); p != nil {
						fail("open-panics", fmt.Sprint(p))
						return
					}
					if ferr == nil || under.failNext {
						fail("failed-underlying-open-not-reported", nm)
						return
					}
					failedOpens++
					c.Count("operations_checked", 1)
					continue
				}
				log = append(log, "open "+nm)
				var s kvdb.Store
				var err error
				if p, _ := ev.Try(func() { s, err = open(nm) }); p != nil {
					cls := "open-panics"
					if which == "Wrap" && op == 0 || fmt.Sprint(p) == "assignment to entry in nil map" {
						cls = "open-panics-nil-map"
					}
					fail(cls, fmt.Sprint(p))
					return
				}
				if err != nil {
					fail("open-fails", err.Error())
					return
				}
				if ref[nm] > 0 {
					if s != last[nm] {
						fail("reopen-returns-different-store", nm)
						return
					}
					if under.opens != o0 {
						fail("reopen-reaches-underlying-producer", nm)
						return
					}
				} else {
					if under.opens != o0+1 {
						fail("first-open-does-not-open-underlying", nm)
						return
					}
					if everClosed[nm] {
						reopened = true
					}
				}
				ref[nm]++
				if ref[nm] > maxRef {
					maxRef = ref[nm]
				}
				dropOK[nm] = true
				last[nm] = s
			case k < 8:
				if last[nm] == nil {
					continue
				}
				injectedCloseErr := false
				if ref[nm] == 1 && r.Intn(5) == 0 {
					// the underlying Close of this last close reports an error: it is passed on, and the store is closed all the same
					under.failCloseNext, injectedCloseErr = true, true
					log = append(log, "close "+nm+" (underlying Close fails)")
				} else {
					log = append(log, "close "+nm)
				}
				var err error
				if p, _ := ev.Try(func() { err = last[nm].Close() }); p != nil {
					fail("close-panics", fmt.Sprint(p))
					return
				}
				if ref[nm] == 0 {
					extraClose = true
					if err == nil {
						fail("extra-close-not-reported", nm)
						return
					}
					if under.closeCalls != c0 {
						fail("extra-close-reaches-underlying", nm)
						return
					}
				} else {
					if injectedCloseErr {
						if err == nil {
							fail("failed-underlying-close-not-reported", nm)
							return
						}
					} else if err != nil {
						fail("close-fails", err.Error())
						return
					}
					ref[nm]--
					want := 0
					if ref[nm] == 0 {
						want = 1
						everClosed[nm] = true
					}
					if under.closeCalls-c0 != want {
						fail("underlying-close-count-wrong", fmt.Sprintf("%s: underlying Close ran %d times, want %d (count now %d)", nm, under.closeCalls-c0, want, ref[nm]))
						return
					}
				}
			default:
				if last[nm] == nil {
					continue
				}
				log = append(log, "drop "+nm)
				if p, _ := ev.Try(func() { last[nm].Drop() }); p != nil {
					fail("drop-panics", fmt.Sprint(p))
					return
				}
				want := 0
				if dropOK[nm] {
					want = 1
				} else {
					doubleDrop = true
				}
				dropOK[nm] = false
				if under.dropCalls-d0 != want {
					fail("underlying-drop-count-wrong", fmt.Sprintf("%s: underlying Drop ran %d times, want %d", nm, under.dropCalls-d0, want))
					return
				}
			}
			c.Count("operations_checked", 1)
		}
		for _, s := range under.stores {
			if s.closes > 1 {
				fail("underlying-closed-twice", s.name)
				return
			}
		}
		c.Eval(1)
		c.Count("underlying_opens_failed_by_injection", int64(failedOpens))
		if maxRef >= 3 && extraClose && reopened && doubleDrop {
			c.Nontrivial(ev.Hash(which, log))
		}
		if c.WantSample() {
			c.Sample(map[string]interface{}{"case": i, "wrapper": which, "ops": log})
		}
	})
}

// ---- overlapping Drop calls: the second Drop starts while the first is still inside the underlying Drop

type c27gateStore struct {
	kvdb.Store
	mu      *sync.Mutex
	drops   *int
	entered chan struct{}
	gate    chan struct{}
}

func (s *c27gateStore) Close() error { return nil }
func (s *c27gateStore) Drop() {
	s.mu.Lock()
	*s.drops++
	s.mu.Unlock()
	s.entered <- struct{}{}
	<-s.gate
}

type c27gateProducer struct {
	c27producer
	mk func() kvdb.Store
}

func (p *c27gateProducer) OpenDB(name string) (kvdb.Store, error) { return p.mk(), nil }

func c27OverlappingDrops(c *ev.Ctx, i int) {
	var mu sync.Mutex
	drops := 0
	entered, gate := make(chan struct{}, 8), make(chan struct{})
	under := &c27gateProducer{mk: func() kvdb.Store {
		return &c27gateStore{Store: memorydb.New(), mu: &mu, drops: &drops, entered: entered, gate: gate}
	}}
	var open func(string) (kvdb.Store, error)
	which := "Wrap"
	if i%2 == 0 {
		open = cachedproducer.Wrap(under).OpenDB
	} else {
		which = "WrapAll"
		open = cachedproducer.WrapAll(under).OpenDB
	}
	s1, err := open("a")
	if err != nil {
		c.Violation("open-fails", map[string]interface{}{"case": i, "why": err.Error()})
		return
	}
	s2 := s1
	if i%4 >= 2 {
		s2, _ = open("a") // the second Drop comes through another handle of the same open store
	}
	nDrops := 2 + i%3
	done := make(chan struct{}, nDrops)
	go func() { s1.Drop(); done <- struct{}{} }()
	select {
	case <-entered:
	case <-time.After(20 * time.Second):
		c.Inconclusive(1)
		close(gate)
		return
	}
	// the first Drop is now inside the underlying Drop; start the others and let them run as far as they get
	for k := 1; k < nDrops; k++ {
		go func() { s2.Drop(); done <- struct{}{} }()
	}
	finished := 1
	waiting := true
	for finished < nDrops && waiting {
		select {
		case <-done:
			finished++
		case <-entered: // a later Drop reached the underlying store as well; counted below
		case <-time.After(3 * time.Second):
			waiting = false // they may legitimately wait for the first Drop to finish
		}
	}
	close(gate)
	for ; finished <= nDrops; finished++ {
		select {
		case <-done:
		case <-time.After(20 * time.Second):
			c.Inconclusive(1)
			return
		}
	}
	c.Eval(1)
	mu.Lock()
	n := drops
	mu.Unlock()
	if n != 1 {
		c.Violation("underlying-drop-count-wrong", map[string]interface{}{"case": i, "wrapper": which, "why": fmt.Sprintf("%d overlapping Drop calls on one open store: the underlying Drop ran %d times, want 1", nDrops, n), "ops": []string{"open a", "Drop (blocked inside the underlying Drop)", "Drop again meanwhile"}})
		return
	}
	c.Count("overlapping_drop_scenarios", 1)
	c.Nontrivial(ev.Hash("overlap", which, nDrops, i%4 >= 2))
}

// c27ManyOpens: one name opened hundreds of times (around the sizes where a narrow counter wraps), then closed as often:
// every open returns the same store without reaching the underlying producer again, every close but the last is silent,
// the last one closes the underlying store - once - and one more close is an error.
func c27ManyOpens(c *ev.Ctx, i int) {
	n := []int{255, 256, 257, 300, 511, 512, 513, 1000, 65535, 65536, 65537}[i%11]
	under := &c27producer{}
	var open func(string) (kvdb.Store, error)
	which := "Wrap"
	if i%2 == 0 {
		open = cachedproducer.Wrap(under).OpenDB
	} else {
		which = "WrapAll"
		open = cachedproducer.WrapAll(under).OpenDB
	}
	fail := func(why string) {
		c.Violation("underlying-close-count-wrong", map[string]interface{}{"case": i, "wrapper": which, "opens_of_one_name": n, "why": why})
	}
	var first kvdb.Store
	for k := 0; k < n; k++ {
		s, err := open("a")
		if err != nil {
			fail(fmt.Sprintf("open #%d fails: %v", k+1, err))
			return
		}
		if k == 0 {
			first = s
		} else if s != first {
			c.Violation("reopen-returns-different-store", map[string]interface{}{"case": i, "wrapper": which, "open_number": k + 1})
			return
		}
	}
	if under.opens != 1 {
		fail(fmt.Sprintf("%d opens reached the underlying producer %d times", n, under.opens))
		return
	}
	for k := 0; k < n; k++ {
		err := first.Close()
		want := 0
		if k == n-1 {
			want = 1
		}
		if err != nil {
			fail(fmt.Sprintf("close #%d of %d reports %v", k+1, n, err))
			return
		}
		if under.closeCalls != want {
			fail(fmt.Sprintf("after close #%d of %d the underlying Close ran %d times, want %d", k+1, n, under.closeCalls, want))
			return
		}
	}
	if err := first.Close(); err == nil {
		c.Violation("extra-close-not-reported", map[string]interface{}{"case": i, "wrapper": which, "opens_of_one_name": n})
		return
	}
	c.Eval(1)
	c.Count("names_opened_hundreds_of_times", 1)
	c.Nontrivial(ev.Hash("many", which, n))
}
