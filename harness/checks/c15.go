package checks

import (
	"errors"
	"fmt"
	"math/rand"
	"sync"
	"sync/atomic"
	"time"

	"github.com/Fantom-foundation/lachesis-base/gossip/dagprocessor"
	"github.com/Fantom-foundation/lachesis-base/hash"
	"github.com/Fantom-foundation/lachesis-base/inter/dag"
	"github.com/Fantom-foundation/lachesis-base/inter/idx"
	"github.com/Fantom-foundation/lachesis-base/utils/datasemaphore"

	"verif/cons"
	"verif/ev"
)

// C15 Event processor releases every event and balances its semaphore.
func init() { register("C15", "exploration", runC15) }

type c15copy struct {
	*cons.Ev
	batch, pos int
	failCheck  bool
	failProc   bool
	zeroSize   bool // this run's events report Size() == 0 (an event type of the application's own)
}

func (c *c15copy) Size() int {
	if c.zeroSize {
		return 0
	}
	return c.Ev.Size()
}

type c15log struct {
	kind string // process | released | exists
	c    *c15copy
	id   hash.Event
	h    idx.Lamport // highest lamport handed out so far (for process)
}

type c15batch struct {
	copies  []*c15copy
	ordered bool
	done    int32 // 1 = done() ran before Stop() was called, 2 = done() ran after Stop() was called (the deferred call also fires on quit)
	acc     bool
}

func runC15(c *ev.Ctx) {
	c.Rule = "a real dagprocessor.Processor with a real DataSemaphore; 2-8 producer goroutines enqueue ordered and unordered batches (1-5 events, every pushed copy a distinct pointer, duplicate ids across batches, events far ahead in Lamport time); CheckParentless answers from other goroutines after random delays and out of order and fails for some events, Process fails for some; buffer limits from 3 events upward; semaphore capacities from 'everything fits' down to 'a few batches' with a 20 ms acquire timeout (rejected batches); Stop() either after all accepted batches finished or while batches are in flight. " +
		"Every third run the application connects events out of band (Exists turns true for events the processor never processed) while copies of them may sit in the buffer. Oracle (offline over the callback log): every copy of a batch whose done() ran is Released exactly once by the time Stop() returned; copies of batches rejected with ErrBusy never appear in any callback; Processing() sampled in every callback never exceeds the capacity and is zero at the end when every accepted batch finished; the over-release warning never fires; in ordered batches the first Process/Released/Exists naming each event come in batch order; Process(e) only if e.Lamport <= H + limit.Num + 1 for the highest H the HighestLamport callback had returned by then. " +
		"non-trivial = distinct runs with an ordered batch whose checks completed out of order, a far-future drop and a rejected batch or an in-flight Stop"
	c.Assumptions = []string{"the HighestLamport callback is monotone (the harness keeps it so)", "a watchdog of 60 s per run decides 'hangs'"}
	nR := c.Pick(2000, 40000)
	c.Parallel(nR, 16, func(i int) { c15Run(c, c.Rand("run", i), i) })
}

func c15Run(c *ev.Ctx, r *rand.Rand, caseN int) {
	plans := cons.RandomPlans(r, 1, 5, false, cons.CheatNone)
	cfg := &cons.GenCfg{Plans: plans, Plain: true, EventsPer: 10 + r.Intn(40), MinParents: 1, MaxParents: 3}
	d, _, err := cons.Generate(r, cfg)
	if err != nil {
		panic(err)
	}
	base := d.Epochs[0].Events
	nBase := len(base)
	// far-future events
	var all []*cons.Ev
	all = append(all, base...)
	nFar := 3
	if caseN%5 == 2 {
		nFar = 12
	}
	for k := 0; k < nFar; k++ {
		e := &cons.Ev{}
		e.SetEpoch(1)
		e.SetCreator(plans[0].IDs[0])
		e.SetSeq(1)
		e.SetFrame(1)
		lam := uint32(100000 + r.Intn(1000))
		switch k % 3 {
		case 1:
			lam = 1<<31 + uint32(r.Intn(1000)) // further ahead than a signed 32-bit distance can express
		case 2:
			lam = ^uint32(0) - uint32(r.Intn(5))
		}
		e.SetLamport(idx.Lamport(lam))
		e.SetHashID(uint64(9000 + k))
		e.Name = fmt.Sprintf("far%d", k)
		all = append(all, e)
	}
	bufLimit := dag.Metric{Num: idx.Event(3 + r.Intn(nBase)), Size: 1 << 30}
	var totalSize uint64
	for _, e := range all {
		totalSize += uint64(e.Size())
	}
	capM := dag.Metric{Num: idx.Event(2*len(all) + 5), Size: 3 * totalSize}
	tightSem := caseN%3 == 1
	if tightSem {
		capM = dag.Metric{Num: idx.Event(6 + r.Intn(8)), Size: totalSize}
	}
	midStop := caseN%4 == 3
	dropRun := caseN%5 == 2 // the highest known Lamport time falls back to 0 in the middle of the run (epoch switch)
	dropped := false
	var warned int32
	sem := datasemaphore.New(capM, func(a, b, cc dag.Metric) { atomic.AddInt32(&warned, 1) })
	var mu sync.Mutex
	var logs []c15log
	connected := map[hash.Event]dag.Event{}
	highest, hMaxReturned := idx.Lamport(0), idx.Lamport(0)
	var overCap atomic.Value
	sample := func() {
		p := sem.Processing()
		if p.Num > capM.Num || p.Size > capM.Size {
			overCap.Store(fmt.Sprintf("Processing()=%v above capacity %v", p, capM))
		}
	}
	seeds := rand.New(rand.NewSource(r.Int63()))
	var seedMu sync.Mutex
	delay := func() time.Duration {
		seedMu.Lock()
		defer seedMu.Unlock()
		return time.Duration(seeds.Intn(300)) * time.Microsecond
	}
	proc := dagprocessor.New(sem, dagprocessor.Config{EventsBufferLimit: bufLimit, EventsSemaphoreTimeout: 20 * time.Millisecond, MaxTasks: 8}, dagprocessor.Callback{
		Event: dagprocessor.EventCallback{
			Process: func(e dag.Event) error {
				cp := e.(*c15copy)
				sample()
				mu.Lock()
				defer mu.Unlock()
				logs = append(logs, c15log{"process", cp, e.ID(), hMaxReturned})
				if cp.failProc {
					return errors.New("process failed (injected)")
				}
				connected[e.ID()] = e
				if e.Lamport() > highest && e.Lamport() < 90000 && !dropped {
					highest = e.Lamport()
				}
				return nil
			},
			Released: func(e dag.Event, peer string, err error) {
				sample()
				mu.Lock()
				defer mu.Unlock()
				logs = append(logs, c15log{"released", e.(*c15copy), e.ID(), 0})
			},
			Get: func(id hash.Event) dag.Event {
				mu.Lock()
				defer mu.Unlock()
				if e, ok := connected[id]; ok {
					return e
				}
				return nil
			},
			Exists: func(id hash.Event) bool {
				mu.Lock()
				defer mu.Unlock()
				logs = append(logs, c15log{"exists", nil, id, 0})
				return connected[id] != nil
			},
			CheckParents: func(e dag.Event, parents dag.Events) error { return nil },
			CheckParentless: func(e dag.Event, checked func(error)) {
				cp := e.(*c15copy)
				dl := delay()
				go func() {
					time.Sleep(dl)
					mu.Lock()
					logs = append(logs, c15log{"checked", cp, e.ID(), 0})
					mu.Unlock()
					if cp.failCheck {
						checked(errors.New("check failed (injected)"))
					} else {
						checked(nil)
					}
				}()
			},
		},
		HighestLamport: func() idx.Lamport {
			if midStop {
				time.Sleep(delay() / 2) // widens the window in which Stop() can arrive while a batch is being inserted
			}
			mu.Lock()
			defer mu.Unlock()
			if highest > hMaxReturned {
				hMaxReturned = highest
			}
			if dropped {
				hMaxReturned = highest
			}
			if dropRun && !dropped {
				return highest + 200000 // before the fall-back the application knows events far ahead: the far events pass
			}
			return highest
		},
	})
	proc.Start()
	// batches: a shuffled-ish order of all events plus some duplicates
	order := r.Perm(len(all))
	if r.Intn(2) == 0 {
		for k := range order {
			order[k] = k
		}
		for k := 0; k < len(order); k++ {
			a, b := r.Intn(len(order)), r.Intn(len(order))
			if a-b < 6 && b-a < 6 {
				order[a], order[b] = order[b], order[a]
			}
		}
	}
	for k := r.Intn(5); k > 0; k-- {
		order = append(order, r.Intn(len(all)))
	}
	var batches []*c15batch
	var oversize *c15batch
	idCount := map[hash.Event]int{}
	for i := 0; i < len(order); {
		k := 1 + r.Intn(5)
		b := &c15batch{ordered: r.Intn(2) == 0}
		for j := 0; j < k && i < len(order); j, i = j+1, i+1 {
			e := all[order[i]]
			idCount[e.ID()]++
			b.copies = append(b.copies, &c15copy{Ev: e, batch: len(batches), pos: j, failCheck: r.Intn(12) == 0, failProc: r.Intn(12) == 0, zeroSize: caseN%7 == 3})
		}
		batches = append(batches, b)
	}
	if tightSem {
		// one batch larger than the whole semaphore: must be refused even when the semaphore is idle
		big := &c15batch{ordered: r.Intn(2) == 0}
		for j := 0; j < int(capM.Num)+2; j++ {
			e := all[r.Intn(nBase)]
			idCount[e.ID()]++
			big.copies = append(big.copies, &c15copy{Ev: e, batch: len(batches), pos: j, zeroSize: caseN%7 == 3})
		}
		at := r.Intn(len(batches) + 1)
		batches = append(batches[:at:at], append([]*c15batch{big}, batches[at:]...)...)
		for bi, b := range batches {
			for _, cp := range b.copies {
				cp.batch = bi
			}
		}
		oversize = big
	}
	producers := 2 + r.Intn(7)
	// every third run: the application also connects events on its own (they reached it another way) while copies of
	// them may be waiting in the ordering buffer - Exists() turns true for an event the processor never processed
	oobStop := make(chan struct{})
	if caseN%3 == 0 {
		rr := rand.New(rand.NewSource(r.Int63()))
		go func() {
			for {
				select {
				case <-oobStop:
					return
				default:
				}
				time.Sleep(120 * time.Microsecond)
				e := all[rr.Intn(len(all))]
				mu.Lock()
				if connected[e.ID()] == nil {
					ok := true
					for _, p := range e.Parents() {
						if rr.Intn(2) == 0 {
							break // the application's own view need not be the processor's: it may hold the event before its parents went through here
						}
						if connected[p] == nil {
							ok = false
						}
					}
					if ok {
						connected[e.ID()] = e
						logs = append(logs, c15log{"oob-connect", nil, e.ID(), 0})
						c.Count("events_connected_out_of_band", 1)
					}
				}
				mu.Unlock()
			}
		}()
	}
	defer close(oobStop)
	var stopCalled int32
	finished := make(chan string, 1)
	go func() {
		var wg sync.WaitGroup
		for w := 0; w < producers; w++ {
			wg.Add(1)
			go func(w int) {
				defer wg.Done()
				for bi := w; bi < len(batches); bi += producers {
					b := batches[bi]
					evs := make(dag.Events, len(b.copies))
					for i, cp := range b.copies {
						evs[i] = cp
					}
					err := proc.Enqueue("peer", evs, b.ordered, func(hash.Events) {}, func() {
						if atomic.LoadInt32(&stopCalled) == 0 {
							atomic.StoreInt32(&b.done, 1)
						} else {
							atomic.CompareAndSwapInt32(&b.done, 0, 2)
						}
					})
					if err == nil {
						b.acc = true
					}
				}
			}(w)
		}
		if dropRun {
			time.Sleep(time.Duration(r.Intn(1500)) * time.Microsecond)
			mu.Lock()
			dropped, highest = true, 0
			logs = append(logs, c15log{"drop", nil, hash.Event{}, 0})
			mu.Unlock()
		}
		if midStop {
			time.Sleep(time.Duration(r.Intn(2000)) * time.Microsecond)
			atomic.StoreInt32(&stopCalled, 1)
			proc.Stop()
			wg.Wait()
			finished <- ""
			return
		}
		wg.Wait()
		deadline := time.Now().Add(40 * time.Second)
		for {
			allDone := true
			for _, b := range batches {
				if b.acc && atomic.LoadInt32(&b.done) == 0 {
					allDone = false
				}
			}
			if allDone {
				break
			}
			if time.Now().After(deadline) {
				finished <- "accepted batches did not finish within 40 s"
				return
			}
			time.Sleep(200 * time.Microsecond)
		}
		proc.Stop()
		finished <- ""
	}()
	desc := func() map[string]interface{} {
		return map[string]interface{}{"case": caseN, "events": len(all), "batches": len(batches), "producers": producers, "buffer_limit": bufLimit.String(), "semaphore_capacity": capM.String(), "tight_semaphore": tightSem, "stop_in_flight": midStop}
	}
	select {
	case why := <-finished:
		if why != "" {
			m := desc()
			m["why"] = why
			c.Violation("processor-hangs", m)
			return
		}
	case <-time.After(60 * time.Second):
		c.Violation("processor-hangs", desc())
		return
	}
	time.Sleep(time.Millisecond) // late CheckParentless goroutines of an in-flight stop
	mu.Lock()
	defer mu.Unlock()
	c.Eval(1)
	// ---- offline checks
	rel := map[*c15copy]int{}
	first := map[*c15copy]int{}
	byID := map[hash.Event]*c15copy{}
	for _, b := range batches {
		for _, cp := range b.copies {
			if idCount[cp.ID()] == 1 {
				byID[cp.ID()] = cp
			}
		}
	}
	afterDrop := false
	checkedAfterDrop := map[*c15copy]bool{}
	for _, l := range logs {
		switch l.kind {
		case "drop":
			afterDrop = true
		case "checked":
			if afterDrop {
				checkedAfterDrop[l.c] = true
			}
		case "process":
			if checkedAfterDrop[l.c] && uint64(l.c.Lamport()) > uint64(bufLimit.Num)+1 {
				m := desc()
				m["event"], m["lamport"] = l.c.Name, l.c.Lamport()
				c.Violation("far-future-event-processed-after-the-highest-lamport-fell", m)
				return
			}
		}
	}
	if afterDrop {
		c.Count("runs_with_highest_lamport_falling_back", 1)
	}
	farDrop := false
	for li, l := range logs {
		if l.kind == "checked" || l.kind == "drop" || l.kind == "oob-connect" {
			continue // harness-side markers, not callbacks of the processor
		}
		cp := l.c
		if cp == nil {
			cp = byID[l.id]
		}
		if cp != nil {
			if _, ok := first[cp]; !ok {
				first[cp] = li + 1
			}
		}
		switch l.kind {
		case "released":
			rel[l.c]++
		case "process":
			if !dropRun && uint64(l.c.Lamport()) > uint64(l.h)+uint64(bufLimit.Num)+1 {
				m := desc()
				m["event"], m["lamport"], m["highest_known"] = l.c.Name, l.c.Lamport(), l.h
				c.Violation("far-future-event-processed", m)
				return
			}
		}
	}
	// after Stop() returned no internal goroutine runs any more and the buffer was cleared: every copy that
	// reached the ordering buffer (its id was looked up by Exists; ids shared by several copies are left out)
	// must have been released exactly once, finished batch or not
	reached := map[hash.Event]bool{}
	for _, l := range logs {
		if l.kind == "exists" {
			reached[l.id] = true
		}
	}
	for _, b := range batches {
		for _, cp := range b.copies {
			if idCount[cp.ID()] == 1 && reached[cp.ID()] && rel[cp] != 1 {
				m := desc()
				m["event"], m["batch"], m["released_times"], m["batch_done_state"] = cp.Name, cp.batch, rel[cp], atomic.LoadInt32(&b.done)
				c.Violation("copy-that-reached-the-buffer-not-released-after-stop", m)
				return
			}
		}
	}
	if oversize != nil && oversize.acc {
		m := desc()
		m["batch_events"] = len(oversize.copies)
		c.Violation("batch-larger-than-the-semaphore-accepted", m)
		return
	}
	outOfOrderChecks, rejected := false, false
	for _, b := range batches {
		if !b.acc {
			rejected = true
			for _, cp := range b.copies {
				if rel[cp] > 0 || first[cp] > 0 && idCount[cp.ID()] == 1 && false {
					m := desc()
					m["event"] = cp.Name
					c.Violation("copy-of-rejected-batch-released", m)
					return
				}
			}
			for _, l := range logs {
				if l.kind != "checked" && l.c != nil && l.c.batch == b.copies[0].batch && l.c == b.copies[l.c.pos] {
					m := desc()
					m["event"], m["callback"] = l.c.Name, l.kind
					c.Violation("callback-for-a-rejected-batch", m)
					return
				}
			}
			continue
		}
		if atomic.LoadInt32(&b.done) != 1 {
			continue // in flight when Stop() was called
		}
		for _, cp := range b.copies {
			if rel[cp] != 1 {
				m := desc()
				m["event"], m["batch"], m["released_times"] = cp.Name, cp.batch, rel[cp]
				c.Violation("copy-of-finished-batch-not-released-exactly-once", m)
				return
			}
			if cp.Lamport() >= 90000 {
				farDrop = true
			}
		}
		if b.ordered {
			prev := 0
			for _, cp := range b.copies {
				if first[cp] == 0 || idCount[cp.ID()] != 1 {
					continue // copies sharing their id with another copy have no unambiguous first touch
				}
				if first[cp] < prev {
					m := desc()
					m["batch"], m["position"] = cp.batch, cp.pos
					c.Violation("ordered-batch-reached-buffer-out-of-order", m)
					return
				}
				prev = first[cp]
			}
			if len(b.copies) >= 2 {
				outOfOrderChecks = true // delays are random per event: with >=2 events the completion order is arbitrary
			}
			c.Count("ordered_batches_checked", 1)
		}
	}
	if v := overCap.Load(); v != nil {
		m := desc()
		m["why"] = v
		c.Violation("semaphore-held-amount-exceeds-capacity", m)
		return
	}
	if atomic.LoadInt32(&warned) != 0 {
		c.Violation("semaphore-over-release-warning", desc())
		return
	}
	if !midStop {
		if p := sem.Processing(); p.Num != 0 || p.Size != 0 {
			m := desc()
			m["processing"] = p.String()
			c.Violation("semaphore-not-zero-after-all-batches-finished", m)
			return
		}
	}
	c.Count("callbacks_logged", int64(len(logs)))
	c.Count("batches", int64(len(batches)))
	if rejected {
		c.Count("runs_with_rejected_batches", 1)
	}
	if midStop {
		c.Count("runs_stopped_in_flight", 1)
	}
	if outOfOrderChecks && farDrop && (rejected || midStop) {
		c.Nontrivial(ev.Hash("c15", caseN, len(logs)))
	}
	if c.WantSample() {
		c.Sample(desc())
	}
}
