package checks

import (
	"fmt"
	"verif/cons"
	"verif/ev"

	"github.com/Fantom-foundation/lachesis-base/inter/idx"
	"github.com/Fantom-foundation/lachesis-base/inter/pos"
)

// c01TargetedSeal: the epoch is sealed exactly on a frame that some delivery order decides inside the Process call of
// a multi-frame root (a sleeping validator catching up) or together with other frames in one call. All parents-first
// orders must still accept every event of the epoch up to their seal, emit the same blocks and move to the same epoch.
func c01TargetedSeal(c *ev.Ctx, i int) {
	r := c.Rand("targeted-seal", i)
	n := 4 + r.Intn(3)
	plans := cons.RandomPlans(r, 1, -n, false, cons.CheatBelowThird)
	if i%2 == 0 {
		for k := range plans[0].Lag {
			plans[0].Lag[k] = 0
		}
	}
	cfg := &cons.GenCfg{Plans: plans, EventsPer: 30 * n, MinParents: 1, MaxParents: 3 + r.Intn(2), Sleeper: i%4 != 3, ForkProb: 0.05}
	d, _, err := cons.Generate(r, cfg)
	if err != nil {
		c.Count("other_property_discrepancy_built-event-rejected", 1)
		return
	}
	evs := d.Epochs[0].Events
	kinds := []cons.OrderKind{cons.OrdGen, cons.OrdCreatorEarly, cons.OrdRandom, cons.OrdRootsFirst, cons.OrdCreatorLate, cons.OrdRootsLast}
	const dryOrders = 3
	var orders [][]*cons.Ev
	sleeper := 0 // the generator's sleeper is the canonical-first validator; the creator-late/-early orders single it out
	for k := range plans[0].IDs {
		if plans[0].Weights[k] > plans[0].Weights[sleeper] || (plans[0].Weights[k] == plans[0].Weights[sleeper] && plans[0].IDs[k] < plans[0].IDs[sleeper]) {
			sleeper = k
		}
	}
	for _, k := range kinds {
		orders = append(orders, cons.OrderSpecial(r, evs, k, plans[0].IDs[sleeper]))
	}
	// dry runs (no seal) over the first orders: which frames are decided inside a multi-frame root's call / in a cascade?
	cands := map[idx.Frame]int{} // frame -> how interesting (3: later block of a multi-frame root's call, 2: first block of such a call, 1: cascade)
	for oi := 0; oi < dryOrders; oi++ {
		dry := cons.NewInst(plans[0].Epoch, plans[0].Validators(), nil, cons.InstCfg{})
		for _, e := range orders[oi] {
			nb := len(dry.Blocks)
			if err := dry.Process(e); err != nil {
				c.Count("other_property_discrepancy_"+cons.DEventRejected, 1)
				return
			}
			got := dry.Blocks[nb:]
			jump := false
			if sp := e.SelfParent(); sp != nil && e.Frame() >= dry.In.GetEvent(*sp).Frame()+2 {
				jump = true
			}
			for k, b := range got {
				score := 0
				switch {
				case jump && k >= 1:
					score = 3
				case jump:
					score = 2
				case len(got) > 1 && k < len(got)-1:
					score = 1
				}
				if score > cands[b.Frame] {
					cands[b.Frame] = score
				}
			}
		}
	}
	var frames []idx.Frame
	_ = dryOrders
	for score := 3; score >= 2; score-- {
		var fs []idx.Frame
		for f := idx.Frame(1); f < 300; f++ {
			if cands[f] == score {
				fs = append(fs, f)
			}
		}
		r.Shuffle(len(fs), func(a, b int) { fs[a], fs[b] = fs[b], fs[a] })
		for _, f := range fs {
			if len(frames) < 2 {
				frames = append(frames, f)
				c.Count(fmt.Sprintf("targeted_seal_frames_of_interest_%d", score), 1)
			}
		}
	}
	for _, sealFrame := range frames {
		sealFrame := sealFrame
		c.Eval(1)
		nIDs := append([]idx.ValidatorID{}, plans[0].IDs...)
		nW := cons.RandomWeights(r, len(nIDs), false)
		next := cons.BuildValidators(nIDs, nW)
		policy := func(ep idx.Epoch, f idx.Frame) *pos.Validators {
			if ep == plans[0].Epoch && f == sealFrame {
				return next
			}
			return nil
		}
		var first []*cons.Block
		rootFPs := map[uint64]bool{}
		for oi, order := range orders {
			in := cons.NewInst(plans[0].Epoch, plans[0].Validators(), policy, cons.InstCfg{Index: cons.IndexCfg((i + oi) % 3)})
			desc := func() map[string]interface{} {
				return map[string]interface{}{"case": i, "seal_frame": sealFrame, "order": kinds[oi].String(), "order_index": oi, "dag": describeDAG(d)}
			}
			for _, e := range order {
				if in.Epoch() != plans[0].Epoch {
					break // left-over events of the sealed epoch are dropped by the driver
				}
				if err := in.Process(e); err != nil {
					m := desc()
					m["event"], m["err"] = e.Name, err.Error()
					c.Violation(cons.DEventRejected, m)
					return
				}
			}
			if in.Epoch() != plans[0].Epoch+1 || in.Store.GetValidators().String() != next.String() {
				m := desc()
				m["epoch"], m["validators"] = in.Epoch(), in.Store.GetValidators().String()
				c.Violation(cons.DSealMismatch, m)
				return
			}
			if oi == 0 {
				first = in.Blocks
			} else if ok, why := cons.BlocksEqual(first, in.Blocks); !ok {
				m := desc()
				m["why"] = why
				c.Violation("instances-disagree-on-blocks", m)
				return
			}
			rootFPs[cons.RootArrivalFP(order)] = true
			c.Count("targeted_seal_orders_compared", 1)
		}
		if len(first) >= 1 && len(rootFPs) >= 2 {
			c.Nontrivial(d.FP ^ uint64(sealFrame)<<48)
		}
	}
	if len(frames) == 0 {
		c.Count("targeted_seal_dags_without_candidate_frame", 1)
	}
}
