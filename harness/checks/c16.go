package checks

import (
	"os"
	"fmt"
	"math/rand"
	"sync"
	"time"

	"github.com/Fantom-foundation/lachesis-base/gossip/itemsfetcher"

	"verif/ev"
)

// C16 Items fetcher asks the right peers and does not forget pending items (real time, E5).
func init() { register("C16", "exploration", runC16) }

const c16A = 40 * time.Millisecond

type c16req struct {
	peer string
	id   int
	t    time.Duration
}

type c16world struct {
	mu          sync.Mutex
	start       time.Time
	interesting map[int]bool
	suspended   bool
	// logs (times relative to start)
	requests   []c16req
	announced  map[string]map[int][]time.Duration // peer -> id -> call times
	reportedIn map[int]time.Duration              // id -> first time OnlyInterested returned it
	gone       map[int]time.Duration              // id -> time it was received / lost interest (latest)
	unsuspends []time.Duration
	suspends   []time.Duration
	steps      []string
}

func (w *c16world) now() time.Duration { return time.Since(w.start) }

func (w *c16world) requester(peer string) itemsfetcher.ItemsRequesterFn {
	return func(ids []interface{}) error {
		w.mu.Lock()
		defer w.mu.Unlock()
		t := w.now()
		for _, id := range ids {
			w.requests = append(w.requests, c16req{peer, id.(int), t})
		}
		return nil
	}
}

func runC16(c *ev.Ctx) {
	c.Rule = "scripted real-time scenarios (ArriveTimeout A = 40 ms, slack A/10, forget 50 A) against a started Fetcher with 3 peers and 6 item ids: announcements of the same item by 1-3 peers, suspension switched on/off, items received (NotifyReceived) or losing interest, re-announcements, silences; shape 'big call': 9-11 ids announced in one call (more than two internal batches), several reported received in one call; shape 'forgotten while stored': announced while suspended, uninteresting before the next tick, interest returning 4-6 A later without announcement; shape 'stream': an unanswered item re-announced every 0.4 A for 20 A must be retried throughout (no gap above 3 A + 250 ms); shape 'received before fetching': announced while suspended, received before the next tick while the interest filter still lets it through; every 4th scenario is the idle shape: the fetcher sits idle for 2 A, is suspended, gets an announcement and is unsuspended later. The run ends with >= 22 A of silence. " +
		"Observed: every ItemsRequesterFn call (peer identity is baked into the closure), every OnlyInterested answer, all API call times. Oracle: request(id,P) only if P announced id before and id was returned as interesting before; no request for id later than 3 A + 250 ms after it was received / lost interest unless re-announced; " +
		"bounded progress: an item that stays interesting and unreceived is requested no later than max(announcement, end of suspension) + 10 A + 250 ms; refuting observation: not requested at all by the end of the >= 20 A window. Timing verdicts need a healthy scheduling canary (<= 100 ms oversleep), otherwise the attempt is inconclusive and retried. " +
		"non-trivial = distinct scenarios in which a suspension overlaps an announcement"
	c.Assumptions = []string{"OnlyInterested answers from the harness' own interest table", "scenarios are shorter than the forget timeout"}
	n := c.Pick(64, 960)
	c.Parallel(n, 12, func(i int) {
		cls, detail, inc := rtVerdict(3, 100*time.Millisecond, func() (string, map[string]interface{}) { return c16Scenario(c.Rand("scn", i), i) })
		c.Inconclusive(int64(inc))
		c.Eval(1)
		if cls != "" {
			c.Violation(cls, detail)
			return
		}
	})
	// evidence about what was observed is collected inside the scenarios through the global counters below
	c16flush(c)
}

var (
	c16mu      sync.Mutex
	c16stats   = map[string]int64{}
	c16nontriv = map[uint64]bool{}
	c16sample  []interface{}
)

func c16flush(c *ev.Ctx) {
	c16mu.Lock()
	defer c16mu.Unlock()
	for k, v := range c16stats {
		c.Count(k, v)
	}
	for fp := range c16nontriv {
		c.Nontrivial(fp)
	}
	for _, s := range c16sample {
		c.Sample(s)
	}
}

func c16Scenario(r *rand.Rand, caseN int) (string, map[string]interface{}) {
	w := &c16world{start: time.Now(), interesting: map[int]bool{}, announced: map[string]map[int][]time.Duration{}, reportedIn: map[int]time.Duration{}, gone: map[int]time.Duration{}}
	cfg := itemsfetcher.Config{ForgetTimeout: 50 * c16A, ArriveTimeout: c16A, GatherSlack: c16A / 10, HashLimit: 1000, MaxBatch: 4, MaxParallelRequests: 4, MaxQueuedBatches: 32}
	if caseN%8 == 3 {
		cfg.HashLimit = 40 // small announce table; the scenario stays far below it (13 announcements)
	}
	f := itemsfetcher.New(cfg, itemsfetcher.Callback{
		OnlyInterested: func(ids []interface{}) []interface{} {
			w.mu.Lock()
			defer w.mu.Unlock()
			var out []interface{}
			for _, id := range ids {
				if w.interesting[id.(int)] {
					out = append(out, id)
					if _, ok := w.reportedIn[id.(int)]; !ok {
						w.reportedIn[id.(int)] = w.now()
					}
				}
			}
			return out
		},
		Suspend: func() bool {
			w.mu.Lock()
			defer w.mu.Unlock()
			return w.suspended
		},
	})
	f.Start()
	defer f.Stop()
	peers := []string{"P1", "P2", "P3"}
	reqFn := map[string]itemsfetcher.ItemsRequesterFn{}
	for _, p := range peers {
		reqFn[p] = w.requester(p)
		w.announced[p] = map[int][]time.Duration{}
	}
	step := func(s string) {
		w.mu.Lock()
		w.steps = append(w.steps, fmt.Sprintf("%4dms %s", w.now().Milliseconds(), s))
		w.mu.Unlock()
	}
	announce := func(p string, ids ...int) {
		w.mu.Lock()
		t := w.now()
		var arr []interface{}
		for _, id := range ids {
			w.interesting[id] = true
			delete(w.gone, id)
			w.announced[p][id] = append(w.announced[p][id], t)
			arr = append(arr, id)
		}
		w.mu.Unlock()
		step(fmt.Sprintf("announce %s %v", p, ids))
		_ = f.NotifyAnnounces(p, arr, time.Now(), reqFn[p])
	}
	setSuspend := func(v bool) {
		w.mu.Lock()
		if w.suspended != v {
			if v {
				w.suspends = append(w.suspends, w.now())
			} else {
				w.unsuspends = append(w.unsuspends, w.now())
			}
		}
		w.suspended = v
		w.mu.Unlock()
		step(fmt.Sprintf("suspend=%v", v))
	}
	goneF := func(notify bool, ids ...int) {
		w.mu.Lock()
		t := w.now()
		var arr []interface{}
		for _, id := range ids {
			w.interesting[id] = false
			w.gone[id] = t
			arr = append(arr, id)
		}
		w.mu.Unlock()
		if notify {
			step(fmt.Sprintf("received %v", ids))
			_ = f.NotifyReceived(arr)
		} else {
			step(fmt.Sprintf("lost interest %v", ids))
		}
	}
	sleepA := func(k float64) { time.Sleep(time.Duration(k * float64(c16A))) }
	overlap := false
	regain := func(ids ...int) {
		// interest returns WITHOUT a new announcement (the gone-time stays: any later request is a violation)
		w.mu.Lock()
		for _, id := range ids {
			w.interesting[id] = true
		}
		w.mu.Unlock()
		step(fmt.Sprintf("interest returns (no new announcement) %v", ids))
	}
	streamEnd := time.Duration(-1)
	if caseN%16 == 5 {
		// nobody answers the request, and the item keeps being announced again by the peers, several times per timeout,
		// for 20 timeouts: the retries (one per timeout) must go on all the while
		announce(peers[0], 1)
		for k := 0; k < 50; k++ {
			sleepA(0.4)
			announce(peers[k%3], 1)
		}
		streamEnd = w.now()
	} else if caseN%16 == 9 {
		// one call announces more ids than two internal batches hold (MaxBatch is 4); later one call reports many received
		var ids []int
		for k := 0; k < 9+r.Intn(3); k++ {
			ids = append(ids, 20+k)
		}
		announce(peers[r.Intn(3)], ids...)
		sleepA(1.5 + r.Float64())
		goneF(true, ids[:5+r.Intn(3)]...)
	} else if caseN%16 == 1 {
		// announced while suspended (stored only), uninteresting before the next tick, suspension ends; much later the
		// interest returns without any new announcement: the fetcher must have forgotten the item
		sleepA(1.5)
		setSuspend(true)
		announce(peers[r.Intn(3)], 1)
		sleepA(0.1 + 0.3*r.Float64())
		goneF(false, 1)
		sleepA(0.3)
		setSuspend(false)
		sleepA(4 + 2*r.Float64())
		regain(1)
		overlap = true
	} else if caseN%16 == 13 {
		// announced while suspended (stored, not yet fetching), received through another channel before the next tick,
		// while the application's interest filter still lets it through: only the receipt stops the requests
		sleepA(1.5) // the start-up tick has passed: the timer is idle until the announcement arms it
		setSuspend(true)
		announce(peers[r.Intn(3)], 1)
		sleepA(0.1 + 0.4*r.Float64())
		w.mu.Lock()
		w.gone[1] = w.now()
		w.mu.Unlock()
		step("received [1] (interest filter unchanged)")
		_ = f.NotifyReceived([]interface{}{1})
		sleepA(0.2)
		setSuspend(false)
		overlap = true
	} else if caseN%8 == 2 {
		// everything loses interest for several timeouts, then interest returns without an announcement
		announce(peers[r.Intn(3)], 1)
		if r.Intn(2) == 0 {
			announce(peers[r.Intn(3)], 2)
		}
		sleepA(0.5 + r.Float64())
		goneF(false, 1, 2)
		sleepA(4 + 2*r.Float64())
		regain(1)
	} else if caseN%8 == 6 {
		// the only pending item is received (the announce table becomes empty), then an announcement arrives
		// while suspended and nothing else happens after the suspension ends
		announce(peers[r.Intn(3)], 1)
		sleepA(0.3 + r.Float64())
		goneF(true, 1)
		sleepA(0.2 + 2*r.Float64())
		setSuspend(true)
		announce(peers[r.Intn(3)], 2)
		sleepA(1 + r.Float64())
		setSuspend(false)
		overlap = true
	} else if caseN%8 == 3 {
		// one item announced once while suspended, another announced a dozen times by all peers
		sleepA(1.5)
		setSuspend(true)
		announce(peers[0], 1)
		for k := 0; k < 12; k++ {
			announce(peers[k%3], 2)
			sleepA(0.05)
		}
		sleepA(1)
		setSuspend(false)
		overlap = true
	} else if caseN%4 == 0 {
		// the idle shape
		sleepA(2)
		setSuspend(true)
		announce(peers[r.Intn(3)], 1)
		if r.Intn(2) == 0 {
			announce(peers[r.Intn(3)], 2, 3)
		}
		sleepA(1 + 2*r.Float64())
		setSuspend(false)
		overlap = true
	} else {
		for k := 0; k < 4+r.Intn(6); k++ {
			switch r.Intn(8) {
			case 0, 1, 2:
				ids := []int{1 + r.Intn(6)}
				if r.Intn(2) == 0 {
					ids = append(ids, 1+r.Intn(6))
				}
				w.mu.Lock()
				if w.suspended {
					overlap = true
				}
				w.mu.Unlock()
				announce(peers[r.Intn(3)], ids...)
			case 3:
				setSuspend(true)
			case 4:
				setSuspend(false)
			case 5:
				goneF(true, 1+r.Intn(6))
			case 6:
				goneF(false, 1+r.Intn(6))
			default:
			}
			sleepA(0.2 + 1.5*r.Float64())
		}
		setSuspend(false)
	}
	tEndSteps := w.now()
	sleepA(22)
	// ---- verdicts
	w.mu.Lock()
	defer w.mu.Unlock()
	end := w.now()
	desc := func() map[string]interface{} {
		var rq []string
		for _, q := range w.requests {
			rq = append(rq, fmt.Sprintf("%dms %s id=%d", q.t.Milliseconds(), q.peer, q.id))
		}
		if len(rq) > 40 {
			rq = rq[:40]
		}
		return map[string]interface{}{"case": caseN, "arrive_timeout": c16A.String(), "steps": w.steps, "requests": rq, "observed_until_ms": end.Milliseconds()}
	}
	const margin = 250 * time.Millisecond
	firstReq := map[int]time.Duration{}
	lastReq := map[int]time.Duration{}
	for _, q := range w.requests {
		// (a) right peer, after being reported interesting
		ok := false
		for _, ta := range w.announced[q.peer][q.id] {
			if ta <= q.t {
				ok = true
			}
		}
		if !ok {
			m := desc()
			m["request"] = fmt.Sprintf("%+v", q)
			return "item-requested-from-a-peer-that-did-not-announce-it", m
		}
		if tr, was := w.reportedIn[q.id]; !was || tr > q.t {
			m := desc()
			m["request"] = fmt.Sprintf("%+v", q)
			return "item-requested-before-it-was-reported-interesting", m
		}
		if _, ok := firstReq[q.id]; !ok {
			firstReq[q.id] = q.t
		}
		lastReq[q.id] = q.t
		// (b) not long after it was received / lost interest
		if tg, isGone := w.gone[q.id]; isGone && q.t > tg+3*c16A+margin {
			m := desc()
			m["request"], m["gone_at_ms"] = fmt.Sprintf("%+v", q), tg.Milliseconds()
			return "item-still-requested-after-received-or-uninteresting", m
		}
	}
	// (d) an unanswered item that keeps being announced is retried all along (stream shape)
	if streamEnd >= 0 {
		var ts []time.Duration
		for _, q := range w.requests {
			if q.id == 1 && q.t <= streamEnd {
				ts = append(ts, q.t)
			}
		}
		ts = append(ts, streamEnd)
		for k := 1; k < len(ts); k++ {
			if ts[k]-ts[k-1] > 3*c16A+margin {
				m := desc()
				m["item"], m["no_request_between_ms"] = 1, []int64{ts[k-1].Milliseconds(), ts[k].Milliseconds()}
				return "interesting-item-requested-too-late", m
			}
		}
		if len(ts) < 3 {
			m := desc()
			m["item"] = 1
			return "interesting-item-never-requested", m
		}
	}
	// (c) bounded progress for items interesting until the end
	for id, in := range w.interesting {
		if !in {
			continue
		}
		if _, wasGone := w.gone[id]; wasGone {
			continue // lost interest and was not announced anew: the fetcher may have forgotten it
		}
		var ta time.Duration = -1
		for _, p := range peers {
			for _, t := range w.announced[p][id] {
				if ta < 0 || t < ta {
					ta = t
				}
			}
		}
		if ta < 0 {
			continue
		}
		// the last (re-)announcement after which it stayed interesting decides the obligation
		var tLastAnn time.Duration
		for _, p := range peers {
			for _, t := range w.announced[p][id] {
				if t > tLastAnn {
					tLastAnn = t
				}
			}
		}
		tu := tLastAnn
		// suspended at the announcement? then from the first unsuspend after it
		susp := false
		var lastChange time.Duration
		for _, t := range w.suspends {
			if t <= tLastAnn && t >= lastChange {
				susp, lastChange = true, t
			}
		}
		for _, t := range w.unsuspends {
			if t <= tLastAnn && t >= lastChange {
				susp, lastChange = false, t
			}
		}
		if susp {
			for _, t := range w.unsuspends {
				if t > tLastAnn {
					tu = t
					break
				}
			}
		}
		got := false
		var tReq time.Duration
		for _, q := range w.requests {
			if q.id == id && q.t >= tLastAnn-time.Millisecond {
				got, tReq = true, q.t
				break
			}
		}
		if !got {
			m := desc()
			m["item"], m["last_announced_ms"], m["obligation_from_ms"], m["steps_ended_ms"] = id, tLastAnn.Milliseconds(), tu.Milliseconds(), tEndSteps.Milliseconds()
			cls := "interesting-item-never-requested"
			if susp && caseN%4 == 0 {
				cls = "announced-while-suspended-and-idle-never-requested"
			} else if susp {
				cls = "announced-while-suspended-never-requested"
			}
			return cls, m
		}
		if tReq > tu+10*c16A+margin {
			m := desc()
			m["item"], m["requested_ms"], m["obligation_from_ms"] = id, tReq.Milliseconds(), tu.Milliseconds()
			return "interesting-item-requested-too-late", m
		}
	}
	if os.Getenv("VERIF_DEBUG_C16") != "" && caseN%16 == 13 {
		fmt.Printf("DEBUG case %d: %v\n", caseN, desc())
	}
	c16mu.Lock()
	c16stats["requests_observed"] += int64(len(w.requests))
	c16stats["scenarios_completed"]++
	if overlap {
		c16stats["scenarios_with_suspension_overlapping_an_announcement"]++
		c16nontriv[ev.Hash("c16", caseN)] = true
	} else {
		c16nontriv[ev.Hash("c16-plain", caseN)] = true
	}
	if len(c16sample) < 2 {
		c16sample = append(c16sample, desc())
	}
	c16mu.Unlock()
	return "", nil
}
