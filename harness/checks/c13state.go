package checks

import (
	"fmt"

	"github.com/Fantom-foundation/lachesis-base/eventcheck"
	"github.com/Fantom-foundation/lachesis-base/eventcheck/basiccheck"
	"github.com/Fantom-foundation/lachesis-base/eventcheck/epochcheck"
	"github.com/Fantom-foundation/lachesis-base/eventcheck/parentscheck"
	"github.com/Fantom-foundation/lachesis-base/inter/idx"
	"github.com/Fantom-foundation/lachesis-base/inter/pos"

	"verif/cons"
	"verif/ev"
)

type c13mrdr struct {
	v *pos.Validators
	e idx.Epoch
}

func (r *c13mrdr) GetEpochValidators() (*pos.Validators, idx.Epoch) { return r.v, r.e }

// c13Stateful: ONE set of checkers lives through epoch and validator-set changes of the node (the reader answers with
// the node's current state). "Its epoch is the current one and its creator a current validator" refers to the state at
// the moment of the check, whatever the checkers saw before.
func c13Stateful(c *ev.Ctx, i int) {
	r := c.Rand("stateful", i)
	sets := []*pos.Validators{
		pos.EqualWeightValidators([]idx.ValidatorID{1, 2, 3}, 1),
		pos.EqualWeightValidators([]idx.ValidatorID{2, 3, 4}, 1),
		pos.EqualWeightValidators([]idx.ValidatorID{1, 4}, 2),
	}
	rd := &c13mrdr{v: sets[0], e: 5}
	ch := eventcheck.Checkers{Basiccheck: basiccheck.New(), Epochcheck: epochcheck.New(rd), Parentscheck: parentscheck.New()}
	var log []string
	changes := 0
	for step := 0; step < 60; step++ {
		switch r.Intn(5) {
		case 0:
			rd.e++
			log = append(log, fmt.Sprintf("node moves to epoch %d", rd.e))
			changes++
		case 1:
			rd.v = sets[r.Intn(len(sets))]
			log = append(log, fmt.Sprintf("node's validators become %v", rd.v.SortedIDs()))
			changes++
		}
		e := &cons.Ev{}
		e.SetSeq(1)
		e.SetFrame(1)
		e.SetLamport(1)
		ep := rd.e
		switch r.Intn(4) {
		case 0:
			if ep > 1 {
				ep--
			}
		case 1:
			ep++
		}
		e.SetEpoch(ep)
		creator := idx.ValidatorID(1 + r.Intn(5))
		e.SetCreator(creator)
		e.SetID([24]byte{byte(step), byte(i)})
		want := ep == rd.e && rd.v.Exists(creator)
		var err error
		if p, _ := ev.Try(func() { err = ch.Validate(e, nil) }); p != nil {
			c.Violation("checker-panics", map[string]interface{}{"case": i, "history": log, "panic": fmt.Sprint(p)})
			return
		}
		log = append(log, fmt.Sprintf("event epoch=%d creator=%d -> %v", ep, creator, err))
		c.Count("stateful_validations", 1)
		if (err == nil) != want {
			cls := "ill-formed-event-accepted"
			if err != nil {
				cls = "well-formed-event-rejected"
			}
			c.Violation(cls, map[string]interface{}{"generator": "one long-lived checker, node state changes between checks", "case": i, "history": log,
				"node_epoch": rd.e, "node_validators": fmt.Sprint(rd.v.SortedIDs()), "event_epoch": ep, "event_creator": creator, "checker_error": fmt.Sprint(err)})
			return
		}
	}
	c.Eval(1)
	if changes >= 3 {
		c.Nontrivial(ev.Hash("stateful", fmt.Sprint(log)))
	}
}
