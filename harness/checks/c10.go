package checks

import (
	"verif/cons"
	"verif/ev"
)

// C10 Consensus output matches an independent reference implementation (E1, online, block by block).
func init() { register("C10", "exploration", runC10) }

func runC10(c *ev.Ctx) {
	c.Rule = "DAGs of 1..10 validators (thorough: ..16), 1-3 epochs, generated through a real instance's Build with lag, partitions and forks by <1/3-weight cheaters; every third DAG tie-heavy (even n, equal weights, 1-2 parents). " +
		"Each DAG is processed by fresh instances in several parents-first orders while the reference model is stepped in lock-step: per event accept/reject and built frame vs the reference's highest allowed frame, per event the newly emitted blocks (moment of decision, frame number, Atropos). " +
		"non-trivial = distinct DAG fingerprint whose runs emitted >=3 blocks and where the reference saw at least one exact tie or exact-quorum vote tally"
	c.Assumptions = []string{"reference model E1 (harness/cons/ref.go) implements the rules stated in C10", "cheaters hold < 1/3 of the weight in every generated epoch", "events are valid (built by the generator through Build)"}
	o := &campOpts{nDAGs: c.Pick(400, 8000), orders: c.Pick(3, 5), maxN: c.Pick(10, 16), minEvents: 60, maxEvents: c.Pick(350, 700), maxEpochs: 3,
		cheat: cons.CheatBelowThird,
		mine: map[string]bool{cons.DFrameNotMax: true, cons.DBlockCount: true, cons.DAtropos: true, cons.DEventRejected: true, cons.DCrit: true,
			cons.DFrameNumber: true, cons.DSealMismatch: true, "built-event-rejected": true},
		nontrivial: func(d *cons.DAG, ts []*cons.Trace) bool {
			for _, t := range ts {
				if len(t.Blocks) >= 3 && (t.Ties > 0 || t.Exact > 0) {
					return true
				}
			}
			return false
		}}
	runCampaign(c, o)
}
