package checks

import (
	"bytes"
	"fmt"
	"math/rand"

	"github.com/Fantom-foundation/lachesis-base/kvdb"
	"github.com/Fantom-foundation/lachesis-base/kvdb/flushable"
	"github.com/Fantom-foundation/lachesis-base/kvdb/memorydb"
	"github.com/Fantom-foundation/lachesis-base/kvdb/table"

	"verif/ev"
	"verif/kvm"
)

// C24 Tables isolate their key spaces.
func init() { register("C24", "exploration", runC24) }

type c24rec struct {
	kvdb.Store
	compacts [][2][]byte
}

func (r *c24rec) Compact(start, limit []byte) error {
	var s, l []byte
	if start != nil {
		s = append([]byte{}, start...)
	}
	if limit != nil {
		l = append([]byte{}, limit...)
	}
	r.compacts = append(r.compacts, [2][]byte{s, l})
	return r.Store.Compact(start, limit)
}

type c24handle struct {
	name   string
	db     kvdb.Store
	prefix []byte // full prefix in the underlying store
	snaps  []kvdb.Snapshot
	snapM  []kvm.Model
	batch  kvdb.Batch
	pend   []kvBatchOp
}

func c24view(m kvm.Model, prefix []byte) kvm.Model {
	v := kvm.Model{}
	for k, val := range m {
		if bytes.HasPrefix([]byte(k), prefix) {
			v[k[len(prefix):]] = val
		}
	}
	return v
}

var c24prefixes = [][]byte{{0x00}, {0xff}, {'a'}, {'a', 'b'}, {'a', 0xff}, {0xff, 0xff}, {'b'}, {0x00, 0x00}, {'a', 0xff, 0xff}, {0xfe}}

// c24key: mostly short keys from the colliding alphabet; one in ten is long (56..68 bytes), so that prefix+key
// crosses the sizes at which implementations switch from stack buffers to allocations
func c24key(r *rand.Rand) []byte {
	if r.Intn(10) != 0 {
		return kvm.Key(r, 0, 3)
	}
	k := make([]byte, 56+r.Intn(13))
	for i := range k {
		k[i] = "ab\x00\xff"[r.Intn(4)]
	}
	if r.Intn(2) == 0 {
		copy(k[len(k)-3:], kvm.Key(r, 3, 3)) // long keys that differ only at the very end
	}
	return k
}

// c24existing: half of the point reads and deletes go to a key that exists in the handle's view (a fresh random key,
// above all a long one, is practically never present)
func c24existing(r *rand.Rand, view kvm.Model) []byte {
	if r.Intn(2) == 0 && len(view) > 0 {
		ps := view.Iter(nil, nil)
		return append([]byte{}, ps[r.Intn(len(ps))].K...)
	}
	return c24key(r)
}

func runC24(c *ev.Ctx) {
	c.Rule = "one underlying store (memory, flushable/memory, LevelDB or Pebble, behind a Compact recorder) with five handles: raw, table(p1), table(p2), nested table(p1).NewTable(p3) and the three-level table(p1).NewTable(p3).NewTable(p4); one key in ten is 56..68 bytes long; p1,p2,p3 drawn from {00, ff, a, ab, a·ff, ff·ff, b, 00·00, a·ff·ff, fe} (nested and non-nested pairs). Random sequences of 70 operations through random handles: put, delete, get/has, iterate(prefix,start) (half of the iterations interleaved with point reads of other keys through the same handle), batch put/delete/write/replay (into a recorder, or into a batch of another handle which is then written), snapshot take/read/release, Compact(nil,nil). " +
		"Oracle after EVERY operation: the raw content of the underlying store equals the model (so a write through a table touched only p+key), every table's full iteration equals {k minus prefix | k has the prefix}, point reads agree, snapshots keep their creation-time view, batch Replay yields un-prefixed keys; every Compact(nil,nil) on a table reached the underlying store as (start <= prefix, limit nil or greater than every key with the prefix). " +
		"non-trivial = distinct sequences with a non-nested table pair that both received writes, a key equal to the bare prefix (empty table key), and a whole-table Compact followed by more operations"
	c.Assumptions = []string{"non-nil keys/values", "table prefixes are non-empty"}
	nSeq := c.Pick(12000, 400000)
	workers := 16
	c.Parallel(workers, workers, func(wk int) {
		bench, err := kvm.NewBench(fmt.Sprintf("c24-%d", wk))
		if err != nil {
			fmt.Println("BROKEN: cannot create on-disk backends:", err)
			return
		}
		defer bench.Close()
		for s := wk; s < nSeq; s += workers {
			r := c.Rand("seq", s)
			var base kvdb.Store
			backend := []string{"memory", "flushable/memory", "leveldb", "pebble", "memory", "memory"}[s%6]
			switch backend {
			case "leveldb":
				base = bench.Level(0)
			case "pebble":
				base = bench.Pebble(0)
			case "flushable/memory":
				base = flushable.Wrap(memorydb.New())
			default:
				base = memorydb.New()
			}
			if backend == "leveldb" || backend == "pebble" {
				if err := bench.Wipe(); err != nil {
					c.Violation("wipe-failed", map[string]interface{}{"err": err.Error()})
					return
				}
			}
			rec := &c24rec{Store: base}
			p1 := c24prefixes[r.Intn(len(c24prefixes))]
			p2 := c24prefixes[r.Intn(len(c24prefixes))]
			p3 := c24prefixes[r.Intn(len(c24prefixes))]
			// tables get their own copies of the prefix slices (with spare capacity, as callers often have)
			cp := func(b []byte) []byte { x := make([]byte, len(b), len(b)+8); copy(x, b); return x }
			t1 := table.New(rec, cp(p1))
			t2 := table.New(rec, cp(p2))
			n := t1.NewTable(cp(p3))
			p4 := c24prefixes[r.Intn(len(c24prefixes))]
			n3 := n.NewTable(cp(p4)) // three levels deep
			hs := []*c24handle{{name: "raw", db: rec}, {name: fmt.Sprintf("table(%x)", p1), db: t1, prefix: p1}, {name: fmt.Sprintf("table(%x)", p2), db: t2, prefix: p2},
				{name: fmt.Sprintf("table(%x).table(%x)", p1, p3), db: n, prefix: append(append([]byte{}, p1...), p3...)},
				{name: fmt.Sprintf("table(%x).table(%x).table(%x)", p1, p3, p4), db: n3, prefix: append(append(append([]byte{}, p1...), p3...), p4...)}}
			m := kvm.Model{}
			var log []string
			stats := map[string]int{}
			wrote := map[string]bool{}
			bad := ""
			step := func() string {
				h := hs[r.Intn(len(hs))]
				full := func(k []byte) string { return string(append(append([]byte{}, h.prefix...), k...)) }
				view := c24view(m, h.prefix)
				switch c := r.Intn(100); {
				case c < 25:
					k, v := c24key(r), kvm.Key(r, 0, 2)
					log = append(log, fmt.Sprintf("%s put %x=%x", h.name, k, v))
					kk, vv := append([]byte{}, k...), append([]byte{}, v...)
					if err := h.db.Put(kk, vv); err != nil {
						return "Put error " + err.Error()
					}
					scribble(kk)
					scribble(vv)
					m[full(k)] = v
					wrote[h.name] = true
					if len(k) == 0 && len(h.prefix) > 0 {
						stats["empty_table_key"]++
					}
				case c < 33:
					k := c24existing(r, view)
					log = append(log, fmt.Sprintf("%s delete %x", h.name, k))
					if err := h.db.Delete(append([]byte{}, k...)); err != nil {
						return "Delete error " + err.Error()
					}
					delete(m, full(k))
				case c < 43:
					k := c24existing(r, view)
					log = append(log, fmt.Sprintf("%s get %x", h.name, k))
					if why := kvm.CheckPoint(h.db, view, k); why != "" {
						return h.name + ": " + why
					}
				case c < 55:
					p, st := rPrefixStart(r)
					log = append(log, fmt.Sprintf("%s iterate prefix=%x start=%x", h.name, p, st))
					var got []kvm.Pair
					var err error
					if r.Intn(2) == 0 {
						got, err = kvm.ReadAll(h.db, p, st, -1)
					} else {
						// the iteration is interleaved with point reads of other keys through the same handle
						it := h.db.NewIterator(append([]byte{}, p...), append([]byte{}, st...))
						for it.Next() {
							got = append(got, kvm.Pair{K: append([]byte{}, it.Key()...), V: append([]byte{}, it.Value()...)})
							other := c24existing(r, view)
							if _, gerr := h.db.Get(other); gerr != nil {
								err = gerr
							}
							_, _ = h.db.Has(c24key(r))
						}
						if e := it.Error(); e != nil {
							err = e
						}
						it.Release()
						stats["iterations_interleaved_with_point_reads"]++
					}
					if err != nil {
						return "iterator error " + err.Error()
					}
					if why := kvm.SamePairs(got, view.Iter(p, st)); why != "" {
						return fmt.Sprintf("%s iterate(prefix=%x,start=%x): %s; got [%s] want [%s]", h.name, p, st, why, kvm.FmtPairs(got), kvm.FmtPairs(view.Iter(p, st)))
					}
				case c < 65:
					if h.batch == nil {
						h.batch = h.db.NewBatch()
						h.pend = nil
					}
					k, v := c24key(r), kvm.Key(r, 0, 2)
					dl := r.Intn(3) == 0
					log = append(log, fmt.Sprintf("%s batch del=%v %x=%x", h.name, dl, k, v))
					if dl {
						h.batch.Delete(append([]byte{}, k...))
						h.pend = append(h.pend, kvBatchOp{true, k, nil})
					} else {
						h.batch.Put(append([]byte{}, k...), append([]byte{}, v...))
						h.pend = append(h.pend, kvBatchOp{false, k, v})
					}
				case c < 70:
					if h.batch == nil {
						return ""
					}
					if r.Intn(2) == 0 {
						// replay into a batch of another handle (copying one table's pending writes into another table): the
						// operations arrive there un-prefixed and get the target's prefix
						h2 := hs[r.Intn(len(hs))]
						log = append(log, h.name+" batch replay into a batch of "+h2.name+", written")
						tb := h2.db.NewBatch()
						if err := h.batch.Replay(tb); err != nil {
							return "Replay error " + err.Error()
						}
						if err := tb.Write(); err != nil {
							return "batch Write error " + err.Error()
						}
						for _, o := range h.pend {
							fk := string(append(append([]byte{}, h2.prefix...), o.k...))
							if o.del {
								delete(m, fk)
							} else {
								m[fk] = o.v
							}
						}
						wrote[h2.name] = true
						stats["replay_into_another_handles_batch"]++
						break
					}
					log = append(log, h.name+" batch replay")
					rw := &recWriter{}
					if err := h.batch.Replay(rw); err != nil {
						return "Replay error " + err.Error()
					}
					if len(rw.ops) != len(h.pend) {
						return fmt.Sprintf("%s Replay produced %d ops, batch holds %d", h.name, len(rw.ops), len(h.pend))
					}
					for i, o := range h.pend {
						g := rw.ops[i]
						if g.del != o.del || !bytes.Equal(g.k, o.k) || (!o.del && !bytes.Equal(g.v, o.v)) {
							return fmt.Sprintf("%s Replay op %d is (del=%v %x=%x), batch has (del=%v %x=%x)", h.name, i, g.del, g.k, g.v, o.del, o.k, o.v)
						}
					}
					stats["replay"]++
				case c < 76:
					if h.batch == nil {
						return ""
					}
					log = append(log, h.name+" batch write")
					if err := h.batch.Write(); err != nil {
						return "batch Write error " + err.Error()
					}
					h.batch.Reset()
					for _, o := range h.pend {
						if o.del {
							delete(m, full(o.k))
						} else {
							m[full(o.k)] = o.v
						}
					}
					wrote[h.name] = true
					h.batch, h.pend = nil, nil
				case c < 80:
					if len(h.snaps) >= 2 {
						return ""
					}
					log = append(log, h.name+" snapshot")
					sn, err := h.db.GetSnapshot()
					if err != nil {
						return "GetSnapshot error " + err.Error()
					}
					h.snaps = append(h.snaps, sn)
					h.snapM = append(h.snapM, view.Copy())
				case c < 88:
					if len(h.snaps) == 0 {
						return ""
					}
					i := r.Intn(len(h.snaps))
					p, st := rPrefixStart(r)
					log = append(log, fmt.Sprintf("%s snapshot[%d] iterate prefix=%x start=%x + get", h.name, i, p, st))
					got, err := kvm.ReadAll(h.snaps[i], p, st, -1)
					if err != nil {
						return "snapshot iterator error " + err.Error()
					}
					if why := kvm.SamePairs(got, h.snapM[i].Iter(p, st)); why != "" {
						return fmt.Sprintf("%s snapshot %d iterate: %s", h.name, i, why)
					}
					if why := kvm.CheckPoint(h.snaps[i], h.snapM[i], c24existing(r, h.snapM[i])); why != "" {
						return fmt.Sprintf("%s snapshot %d: %s", h.name, i, why)
					}
					stats["snapshot_read"]++
				case c < 91:
					if len(h.snaps) == 0 {
						return ""
					}
					i := r.Intn(len(h.snaps))
					log = append(log, fmt.Sprintf("%s snapshot[%d] release", h.name, i))
					h.snaps[i].Release()
					h.snaps = append(h.snaps[:i:i], h.snaps[i+1:]...)
					h.snapM = append(h.snapM[:i:i], h.snapM[i+1:]...)
				default:
					if len(h.prefix) == 0 {
						return ""
					}
					log = append(log, h.name+" Compact(nil,nil)")
					before := len(rec.compacts)
					if err := h.db.Compact(nil, nil); err != nil {
						return "Compact error " + err.Error()
					}
					if len(rec.compacts) != before+1 {
						return fmt.Sprintf("%s Compact reached the underlying store %d times", h.name, len(rec.compacts)-before)
					}
					cs := rec.compacts[len(rec.compacts)-1]
					start, limit := cs[0], cs[1]
					if bytes.Compare(start, h.prefix) > 0 {
						return fmt.Sprintf("%s Compact(nil,nil): underlying start %x is above the table prefix %x", h.name, start, h.prefix)
					}
					if limit != nil && (bytes.Compare(limit, h.prefix) <= 0 || bytes.HasPrefix(limit, h.prefix)) {
						return fmt.Sprintf("%s Compact(nil,nil): underlying limit %x does not cover every key with prefix %x", h.name, limit, h.prefix)
					}
					stats["compact"]++
					stats["compact_at_op"] = len(log)
				}
				return ""
			}
			p, stack := ev.Try(func() {
				for op := 0; op < 70 && bad == ""; op++ {
					bad = step()
					if bad != "" {
						break
					}
					// ---- after every operation: raw content and every table view
					raw, err := kvm.Dump(rec)
					if err != nil {
						bad = "raw dump error " + err.Error()
						break
					}
					if !raw.Equal(m) {
						bad = fmt.Sprintf("raw content of the underlying store differs from the model after the last operation: store [%s] model [%s]", kvm.FmtPairs(raw.Iter(nil, nil)), kvm.FmtPairs(m.Iter(nil, nil)))
						break
					}
					for _, h := range hs[1:] {
						got, err := kvm.ReadAll(h.db, nil, nil, -1)
						if err != nil {
							bad = "table iterator error " + err.Error()
							break
						}
						if why := kvm.SamePairs(got, c24view(m, h.prefix).Iter(nil, nil)); why != "" {
							bad = fmt.Sprintf("%s full view: %s; got [%s]", h.name, why, kvm.FmtPairs(got))
							break
						}
					}
				}
				for _, h := range hs {
					for _, sn := range h.snaps {
						sn.Release()
					}
				}
			})
			if p != nil {
				bad = fmt.Sprintf("panic: %v\n%s", p, stack)
			}
			c.Eval(1)
			if bad != "" {
				c.Violation("table-differs-from-prefix-view-model", map[string]interface{}{"sequence": s, "backend": backend, "p1": fmt.Sprintf("%x", p1), "p2": fmt.Sprintf("%x", p2), "p3": fmt.Sprintf("%x", p3), "ops": log, "mismatch": bad})
				continue
			}
			for k, v := range stats {
				if k != "compact_at_op" {
					c.Count("ops_"+k, int64(v))
				}
			}
			nonNested := !bytes.HasPrefix(p1, p2) && !bytes.HasPrefix(p2, p1)
			if nonNested && wrote[hs[1].name] && wrote[hs[2].name] && stats["empty_table_key"] > 0 && stats["compact"] > 0 && stats["compact_at_op"] < len(log)-5 {
				c.Nontrivial(ev.Hash(log))
			}
			if nonNested {
				c.Count("sequences_with_non_nested_pair", 1)
			} else {
				c.Count("sequences_with_nested_or_equal_pair", 1)
			}
			if c.WantSample() {
				c.Sample(map[string]interface{}{"sequence": s, "backend": backend, "p1": fmt.Sprintf("%x", p1), "p2": fmt.Sprintf("%x", p2), "p3": fmt.Sprintf("%x", p3), "ops": log})
			}
		}
	})
}

var _ = rand.Intn
