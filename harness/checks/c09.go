package checks

import (
	"fmt"

	"github.com/Fantom-foundation/lachesis-base/inter/idx"
	"github.com/Fantom-foundation/lachesis-base/inter/pos"

	"verif/cons"
	"verif/ev"
)

// C09 Epoch sealing switches cleanly to the new validator set.
func init() { register("C09", "exploration", runC09) }

func sameVals(a interface {
	SortedIDs() []idx.ValidatorID
}, ids []idx.ValidatorID) bool {
	s := a.SortedIDs()
	if len(s) != len(ids) {
		return false
	}
	for i := range s {
		if s[i] != ids[i] {
			return false
		}
	}
	return true
}

func runC09(c *ev.Ctx) {
	c.Rule = "multi-epoch DAGs (2..4 planned epochs, sealing frame seeded in 1..15, next validator set unchanged / re-weighted / shrunk / grown / swapped; every 4th DAG in the sleeper regime where multi-frame roots decide frames). " +
		"Oracle right after the Process call whose EndBlock returned a set: epoch = old+1; validators (canonical ids and weights) equal the returned set; last decided frame = 0; no further block was emitted by that call after the sealing block; the next block carries the new epoch and frame 1; " +
		"and Reset twins: (a) an instance that lived through an unrelated warm-up epoch and (b) an instance stopped in the MIDDLE of the previous epoch (live election state) are Reset(epoch, set), (c) an instance stopped in the middle of THIS epoch and Reset to the same epoch number and set, and (d) an instance that sealed the previous epoch itself and was restarted right after the seal and/or at a random later point of the new epoch, are fed only the new epoch's events: their blocks equal the sealing instance's blocks for that epoch and the reference model's. " +
		"non-trivial = distinct DAG fingerprint with >=1 seal whose new set changes the canonical order or membership and >=1 block decided in the new epoch"
	c.Assumptions = []string{"cheaters < 1/3", "events of the old epoch arriving after the seal are dropped by the driver"}
	nD := c.Pick(400, 6000)
	maxEv := c.Pick(300, 600)
	nT := c.Pick(400, 6000)
	c.Parallel(nT, 0, func(i int) { c09Targeted(c, i) })
	c.Parallel(nD, 0, func(i int) {
		r := c.Rand("dag", i)
		o := &campOpts{maxN: 8, minEvents: 40, maxEvents: maxEv, maxEpochs: 3, cheat: cons.CheatBelowThird}
		cfg := genCfgFor(r, i, o)
		for len(cfg.Plans) < 2 {
			cfg = genCfgFor(r, i, o)
		}
		d, _, err := cons.Generate(r, cfg)
		if err != nil {
			c.Count("other_property_discrepancy_built-event-rejected", 1)
			return
		}
		if len(d.Epochs) < 2 {
			c.Count("dags_without_seal", 1)
			return
		}
		c.Eval(1)
		policy := cfg.Policy()
		kind := cons.OrderKind([]cons.OrderKind{cons.OrdRandom, cons.OrdGen, cons.OrdRootsLast, cons.OrdCreatorLate}[i%4])
		// ---- main run with state probes after every event
		prevEpoch := cfg.Plans[0].Epoch
		expectFrame1 := false
		changed := false
		bad := false
		viol := func(class string, kv map[string]interface{}) {
			kv["case"], kv["dag"] = i, describeDAG(d)
			c.Violation(class, kv)
			bad = true
		}
		t := cons.Run(d, r, cons.RunOpts{Kinds: func(int) cons.OrderKind { return kind }, Inst: cons.InstCfg{Index: cons.IndexCfg(i % 3), ReuseVals: i%2 == 0}, WithRef: true,
			OnEvent: func(t *cons.Trace, e *cons.Ev, nb []*cons.Block) {
				in := t.Inst
				for k, b := range nb {
					if expectFrame1 {
						if b.Frame != 1 || b.Epoch != prevEpoch {
							viol("first-block-of-new-epoch-not-frame-1", map[string]interface{}{"frame": b.Frame, "epoch": b.Epoch, "want_epoch": prevEpoch})
						}
						expectFrame1 = false
						c.Count("first_blocks_of_new_epoch_checked", 1)
					}
					if b.Sealed {
						c.Count("seals_observed", 1)
						if k != len(nb)-1 {
							viol("block-emitted-after-seal-in-same-call", map[string]interface{}{"sealing_frame": b.Frame, "epoch": b.Epoch, "extra_blocks": len(nb) - 1 - k})
						}
						var next *cons.EpochPlan
						for pi, p := range cfg.Plans {
							if p.Epoch == b.Epoch && pi+1 < len(cfg.Plans) {
								next = cfg.Plans[pi+1]
							}
						}
						want := next.Validators()
						got := in.Store.GetValidators()
						if in.Epoch() != b.Epoch+1 {
							viol("epoch-not-incremented", map[string]interface{}{"have": in.Epoch(), "want": b.Epoch + 1})
						}
						if got.String() != want.String() || fmt.Sprint(got.SortedIDs()) != fmt.Sprint(want.SortedIDs()) || fmt.Sprint(got.SortedWeights()) != fmt.Sprint(want.SortedWeights()) {
							viol("validators-differ-from-returned-set", map[string]interface{}{"have": got.String(), "want": want.String()})
						}
						if in.Store.GetLastDecidedFrame() != 0 {
							viol("decided-frames-survive-seal", map[string]interface{}{"last_decided": in.Store.GetLastDecidedFrame()})
						}
						var cur *cons.EpochPlan
						for _, p := range cfg.Plans {
							if p.Epoch == b.Epoch {
								cur = p
							}
						}
						if fmt.Sprint(cur.Validators().SortedIDs()) != fmt.Sprint(want.SortedIDs()) {
							changed = true
						}
						prevEpoch = b.Epoch + 1
						expectFrame1 = true
					}
				}
			}})
		if t.Outside != "" {
			c.Inconclusive(1)
			return
		}
		for _, dc := range t.Discs {
			switch dc.Kind {
			case cons.DSealMismatch, cons.DCrit, cons.DFrameNumber, cons.DBlockCount, cons.DEventRejected:
				viol(dc.Kind, map[string]interface{}{"detail": dc.Detail, "order": kind.String()})
			default:
				c.Count("other_property_discrepancy_"+dc.Kind, 1)
			}
		}
		if bad {
			return
		}
		// ---- Reset twins for every epoch after the first
		blocksOf := func(bl []*cons.Block, ep idx.Epoch) (out []*cons.Block) {
			for _, b := range bl {
				if b.Epoch == ep {
					out = append(out, b)
				}
			}
			return
		}
		newEpochBlocks := 0
		for ei := 1; ei < len(d.Epochs); ei++ {
			ed := d.Epochs[ei]
			want := blocksOf(t.Blocks, ed.Plan.Epoch)
			newEpochBlocks += len(want)
			for variant := 0; variant < 5; variant++ {
				var tw *cons.Inst
				if variant == 4 {
					// an instance that was first told a wrong validator set for this very epoch (same members, other weights),
					// saw part of the epoch's events under it (rejecting one ends that phase), and is then Reset to the epoch
					// with the right set: nothing computed under the wrong weights may survive, whatever the cache sizes
					ws := append([]uint64(nil), ed.Plan.Weights...)
					ws = append(ws[1:], ws[0])
					same := true
					for k := range ws {
						same = same && ws[k] == ed.Plan.Weights[k]
					}
					if same {
						// all weights equal: make the first member dominant without enlarging the total
						for k := 1; k < len(ws); k++ {
							ws[k] = ws[k]/4 + 1
						}
						if ws[0] <= 2 {
							ws[0] = uint64(3 * len(ws))
						}
					}
					tw = cons.NewInst(ed.Plan.Epoch, cons.BuildValidators(ed.Plan.IDs, ws), nil, cons.InstCfg{Index: cons.IdxDefault})
					rejected := 0
					for _, e := range ed.Events {
						if err := tw.Process(e); err != nil {
							rejected++
							break
						}
					}
					if tw.Crit != nil {
						c.Count("wrong_set_phase_ended_in_crit_twin_skipped", 1)
						continue
					}
					tw.Blocks = nil
					tw.Seal = policy
					if err := tw.Reset(ed.Plan.Epoch, ed.Plan.Validators()); err != nil {
						viol("reset-failed", map[string]interface{}{"err": err.Error(), "twin": "wrong set first"})
						return
					}
					c.Count("resets_after_a_wrong_validator_set_for_the_same_epoch", 1)
					c.Count("wrong_set_phases_that_rejected_an_event", int64(rejected))
				} else if variant == 3 {
					// an instance that is already inside this very epoch (some of its events processed, election live) is
					// Reset to the same epoch number and set: it must forget everything and behave like a fresh one
					tw = cons.NewInst(ed.Plan.Epoch, ed.Plan.Validators(), nil, cons.InstCfg{Index: cons.IndexCfg((i + 3) % 3)})
					stop := len(ed.Events) * (1 + r.Intn(3)) / 4
					for _, e := range ed.Events[:stop] {
						if tw.Epoch() != ed.Plan.Epoch {
							break
						}
						if err := tw.Process(e); err != nil {
							viol(cons.DEventRejected, map[string]interface{}{"event": e.Name, "err": err.Error(), "twin": "same-epoch reset"})
							return
						}
					}
					tw.Blocks = nil
					tw.Seal = policy
					if err := tw.Reset(ed.Plan.Epoch, ed.Plan.Validators()); err != nil {
						viol("reset-failed", map[string]interface{}{"err": err.Error(), "twin": "same-epoch reset"})
						return
					}
					c.Count("resets_to_the_epoch_the_instance_is_in", 1)
				} else if variant == 2 {
					// an instance that seals the previous epoch itself and is restarted right after the seal:
					// what the seal left in the databases must be the complete, clean new epoch
					prev := d.Epochs[ei-1]
					tw = cons.NewInst(prev.Plan.Epoch, prev.Plan.Validators(), policy, cons.InstCfg{Index: cons.IndexCfg((i + 2) % 3)})
					for _, e := range prev.Events {
						if tw.Epoch() != prev.Plan.Epoch {
							break
						}
						if err := tw.Process(e); err != nil {
							viol(cons.DEventRejected, map[string]interface{}{"event": e.Name, "err": err.Error(), "twin": "sealing-then-restarted"})
							return
						}
					}
					if tw.Epoch() != ed.Plan.Epoch {
						c.Count("sealing_twin_did_not_seal", 1)
						continue
					}
					if r.Intn(2) == 0 { // otherwise the first restart comes after some of the new epoch's events
						if p, _ := ev.Try(func() { tw = tw.Restart() }); p != nil {
							viol("restart-after-seal-fails", map[string]interface{}{"panic": fmt.Sprint(p), "epoch": ed.Plan.Epoch})
							return
						}
						c.Count("restarts_right_after_seal", 1)
					}
				} else if variant == 0 {
					// lived through an unrelated epoch
					wt := cons.Run(&cons.DAG{Cfg: &cons.GenCfg{Plans: cfg.Plans[ei:]}, Epochs: nil}, r, cons.RunOpts{Kinds: func(int) cons.OrderKind { return cons.OrdGen }, WarmReset: true})
					if wt.Inst == nil {
						viol(cons.DEventRejected, map[string]interface{}{"twin": "warm-up epoch", "detail": fmt.Sprint(wt.Discs)})
						return
					}
					tw = wt.Inst
					tw.Seal = policy
				} else {
					// stopped in the middle of the previous epoch: undecided roots and live votes
					prev := d.Epochs[ei-1]
					tw = cons.NewInst(prev.Plan.Epoch, prev.Plan.Validators(), nil, cons.InstCfg{Index: cons.IndexCfg((i + 1) % 3)})
					stop := len(prev.Events) * (1 + r.Intn(3)) / 4
					for _, e := range prev.Events[:stop] {
						if err := tw.Process(e); err != nil {
							viol(cons.DEventRejected, map[string]interface{}{"event": e.Name, "err": err.Error(), "twin": "mid-epoch"})
							return
						}
					}
					tw.Blocks = nil
					tw.Seal = policy
					if err := tw.Reset(ed.Plan.Epoch, ed.Plan.Validators()); err != nil {
						viol("reset-failed", map[string]interface{}{"err": err.Error()})
						return
					}
				}
				if tw.Epoch() != ed.Plan.Epoch || tw.Store.GetLastDecidedFrame() != 0 || tw.Store.GetValidators().String() != ed.Plan.Validators().String() {
					viol("reset-state-wrong", map[string]interface{}{"epoch": tw.Epoch(), "want_epoch": ed.Plan.Epoch, "last_decided": tw.Store.GetLastDecidedFrame(), "validators": tw.Store.GetValidators().String()})
					return
				}
				restartAt := -1
				if variant == 2 && len(ed.Events) > 0 {
					restartAt = r.Intn(len(ed.Events))
				}
				for k, e := range cons.Order(r, ed.Events, cons.OrdRandom) {
					if tw.Epoch() != ed.Plan.Epoch {
						break
					}
					if k == restartAt {
						if p, _ := ev.Try(func() { tw = tw.Restart() }); p != nil {
							viol("restart-after-seal-fails", map[string]interface{}{"panic": fmt.Sprint(p), "epoch": ed.Plan.Epoch, "at_event": k})
							return
						}
						c.Count("restarts_inside_new_epoch", 1)
					}
					if err := tw.Process(e); err != nil {
						viol("reset-twin-rejects-event", map[string]interface{}{"event": e.Name, "err": err.Error(), "variant": variant, "epoch": ed.Plan.Epoch})
						return
					}
				}
				got := blocksOf(tw.Blocks, ed.Plan.Epoch)
				if ok, why := cons.BlocksEqual(want, got); !ok {
					viol("reset-twin-blocks-differ", map[string]interface{}{"why": why, "variant": variant, "epoch": ed.Plan.Epoch})
					return
				}
				c.Count("reset_twins_compared", 1)
				c.Count("reset_twin_blocks_compared", int64(len(got)))
			}
		}
		if changed && newEpochBlocks > 0 {
			c.Nontrivial(d.FP)
		}
		if c.WantSample() {
			s := describeDAG(d)
			s["case"] = i
			c.Sample(s)
		}
	})
}

// c09Targeted seals at hand-picked moments: a dry run without sealing finds the frames that were decided by
// the Process call of a multi-frame root (a lagging validator catching up) or together with other frames in
// one call; the run is then repeated with the seal placed exactly on such a frame ("all sealing points").
func c09Targeted(c *ev.Ctx, i int) {
	r := c.Rand("targeted", i)
	n := 4 + r.Intn(3)
	plans := cons.RandomPlans(r, 1, -n, false, cons.CheatBelowThird)
	if i%2 == 0 {
		for k := range plans[0].Lag {
			plans[0].Lag[k] = 0
		}
	}
	cfg := &cons.GenCfg{Plans: plans, EventsPer: 30 * n, MinParents: 1, MaxParents: 3 + r.Intn(2), Sleeper: i%2 == 0, ForkProb: 0.05}
	d, g, err := cons.Generate(r, cfg)
	if err != nil {
		c.Count("other_property_discrepancy_built-event-rejected", 1)
		return
	}
	evs := d.Epochs[0].Events
	// dry run (no seal) in a chosen order, remembering which event triggered which blocks
	order := cons.Order(r, evs, cons.OrderKind([]cons.OrderKind{cons.OrdGen, cons.OrdRandom, cons.OrdRootsLast}[i%3]))
	dry := cons.NewInst(plans[0].Epoch, plans[0].Validators(), nil, cons.InstCfg{})
	type cand struct {
		frame idx.Frame
		why   string
	}
	var cands []cand
	for _, e := range order {
		nb := len(dry.Blocks)
		if err := dry.Process(e); err != nil {
			c.Count("other_property_discrepancy_"+cons.DEventRejected, 1)
			return
		}
		got := dry.Blocks[nb:]
		if len(got) == 0 {
			continue
		}
		jump := false
		if sp := e.SelfParent(); sp != nil && e.Frame() >= dry.In.GetEvent(*sp).Frame()+2 {
			jump = true
		}
		for k, b := range got {
			switch {
			case jump:
				cands = append(cands, cand{b.Frame, "decided by the Process call of a multi-frame root"})
			case len(got) > 1 && k < len(got)-1:
				cands = append(cands, cand{b.Frame, "decided together with later frames in one Process call"})
			}
		}
	}
	_ = g
	if len(dry.Blocks) > 0 {
		cands = append(cands, cand{dry.Blocks[r.Intn(len(dry.Blocks))].Frame, "random decided frame"})
	}
	if len(cands) > 4 {
		r.Shuffle(len(cands), func(a, b int) { cands[a], cands[b] = cands[b], cands[a] })
		cands = cands[:4]
	}
	for _, cd := range cands {
		c.Eval(1)
		c.Count("targeted_seals_"+map[bool]string{true: "special", false: "random"}[cd.why != "random decided frame"], 1)
		// next validator set: re-weighted / shrunk
		nIDs := append([]idx.ValidatorID{}, plans[0].IDs...)
		nW := cons.RandomWeights(r, len(nIDs), false)
		if r.Intn(3) == 0 && len(nIDs) > 2 {
			nIDs, nW = nIDs[1:], nW[1:]
		}
		next := &cons.EpochPlan{Epoch: plans[0].Epoch + 1, IDs: nIDs, Weights: nW, Cheaters: map[int]bool{}, Lag: make([]float64, len(nIDs))}
		policy := func(ep idx.Epoch, f idx.Frame) *pos.Validators {
			if ep == plans[0].Epoch && f == cd.frame {
				return next.Validators()
			}
			return nil
		}
		in := cons.NewInst(plans[0].Epoch, plans[0].Validators(), policy, cons.InstCfg{Index: cons.IndexCfg(i % 3)})
		desc := func() map[string]interface{} {
			return map[string]interface{}{"case": i, "seal_frame": cd.frame, "why": cd.why, "dag": describeDAG(d)}
		}
		sealedAt := -1
		for k, e := range order {
			nb := len(in.Blocks)
			if err := in.Process(e); err != nil {
				m := desc()
				m["event"], m["err"] = e.Name, err.Error()
				c.Violation("process-fails-around-seal", m)
				return
			}
			got := in.Blocks[nb:]
			if in.Epoch() != plans[0].Epoch {
				sealedAt = k
				if len(got) == 0 || !got[len(got)-1].Sealed {
					m := desc()
					m["blocks_in_call"] = len(got)
					c.Violation("block-emitted-after-seal-in-same-call", m)
					return
				}
				break
			}
		}
		if sealedAt < 0 {
			m := desc()
			c.Violation(cons.DSealMismatch, m)
			return
		}
		if in.Epoch() != next.Epoch || in.Store.GetLastDecidedFrame() != 0 || in.Store.GetValidators().String() != next.Validators().String() {
			m := desc()
			m["epoch"], m["last_decided"], m["validators"] = in.Epoch(), in.Store.GetLastDecidedFrame(), in.Store.GetValidators().String()
			c.Violation("state-after-seal-wrong", m)
			return
		}
		// continue in the new epoch: events generated through this very instance, checked against the reference
		nb := len(in.Blocks)
		d2, _, err := cons.Generate(r, &cons.GenCfg{Plans: []*cons.EpochPlan{next}, EventsPer: 12 * len(nIDs), MinParents: 1, MaxParents: 4, UseInst: in})
		if err != nil {
			m := desc()
			m["err"] = err.Error()
			c.Violation("new-epoch-event-rejected-after-seal", m)
			return
		}
		ref := cons.NewRef(next.IDs, next.Weights)
		var rb []*cons.RBlock
		for _, e := range d2.Epochs[0].Events {
			mx, allowed, _ := ref.Frames(e)
			if mx != e.Frame() || !allowed {
				m := desc()
				m["event"], m["built"], m["ref_max"] = e.Name, e.Frame(), mx
				c.Violation("new-epoch-frame-differs-from-reference", m)
				return
			}
			b, _ := ref.Add(e, nil)
			rb = append(rb, b...)
		}
		got := in.Blocks[nb:]
		same := len(got) == len(rb)
		for k := 0; same && k < len(rb); k++ {
			same = got[k].Frame == rb[k].Frame && got[k].Atropos == rb[k].Atropos && got[k].Epoch == next.Epoch
		}
		if !same {
			m := desc()
			m["impl_blocks"], m["ref_blocks"] = len(got), len(rb)
			c.Violation("new-epoch-blocks-differ-from-reference", m)
			return
		}
		c.Count("new_epoch_blocks_after_targeted_seal", int64(len(got)))
		if len(got) > 0 && cd.why != "random decided frame" {
			c.Nontrivial(ev.Hash(d.FP, cd.frame))
		}
	}
}
