package checks

import (
	"bytes"
	"fmt"
	"math/big"
	"math/rand"
	"sort"

	"github.com/ethereum/go-ethereum/rlp"

	"github.com/Fantom-foundation/lachesis-base/inter/idx"
	"github.com/Fantom-foundation/lachesis-base/inter/pos"

	"verif/ev"
)

// C12 Validator sets have a canonical, serialisable form.
func init() { register("C12", "exploration", runC12) }

type c12pair struct {
	ID idx.ValidatorID
	W  uint64
}

func c12canon(m map[idx.ValidatorID]uint64) []c12pair {
	var a []c12pair
	for id, w := range m {
		if w != 0 {
			a = append(a, c12pair{id, w})
		}
	}
	sort.Slice(a, func(i, j int) bool {
		if a[i].W != a[j].W {
			return a[i].W > a[j].W
		}
		return a[i].ID < a[j].ID
	})
	return a
}

// c12check compares every observable of v with the canonical list.
func c12check(v *pos.Validators, want []c12pair) string {
	if int(v.Len()) != len(want) {
		return fmt.Sprintf("Len=%d want %d", v.Len(), len(want))
	}
	ids, ws, idxs := v.SortedIDs(), v.SortedWeights(), v.Idxs()
	if len(ids) != len(want) || len(ws) != len(want) || len(idxs) != len(want) || len(v.IDs()) != len(want) {
		return fmt.Sprintf("slice lengths %d/%d/%d want %d", len(ids), len(ws), len(idxs), len(want))
	}
	var total uint64
	for i, p := range want {
		total += p.W
		if ids[i] != p.ID || uint64(ws[i]) != p.W {
			return fmt.Sprintf("position %d: (%d,%d) want (%d,%d)", i, ids[i], ws[i], p.ID, p.W)
		}
		if idxs[p.ID] != idx.Validator(i) || v.GetIdx(p.ID) != idx.Validator(i) || v.GetID(idx.Validator(i)) != p.ID || uint64(v.GetWeightByIdx(idx.Validator(i))) != p.W || uint64(v.Get(p.ID)) != p.W || !v.Exists(p.ID) {
			return fmt.Sprintf("index mapping of id %d broken", p.ID)
		}
	}
	if uint64(v.TotalWeight()) != total {
		return fmt.Sprintf("total %d want %d", v.TotalWeight(), total)
	}
	return ""
}

func runC12(c *ev.Ctx) {
	c.Rule = "random multisets of (ID, weight) pairs incl. zero weights, overwrites and deletions-by-zero, inserted in every permutation (<=5 distinct insertions) or 4 random permutations; every getter (SortedIDs, SortedWeights, Idxs, IDs, GetIdx, GetID, Get, Exists, Len, TotalWeight) is compared with the oracle's sort (weight desc, id asc) of the final non-zero pairs; " +
		"RLP encode->decode, Copy() and Builder().Build() must preserve everything; builder reuse: after editing the builder a set was built from, set.Builder() or set.Copy().Builder(), the set (every getter, its encoding, counting it whole) is unchanged and the next Build has exactly the edited pairs; decoding into a destination (variable or struct field) that already holds another set yields exactly the encoded set; hand-made encodings (any order, repeated IDs, zero weights) decode to the pairs applied in list order, canonical and countable as a whole; BigBuilder with stakes up to 2^256 (dust next to whales, many word-sized stakes summing past 2^64, exact powers of two): no panic, weight(id) == stake >> shift with ONE shift = max(0, bitlen(total)-31), zero-weight members dropped, order of weights follows order of stakes. " +
		"non-trivial = distinct pair-multiset fingerprints that contain a weight tie or a zero/overwritten entry (plain part), or a big set whose shift is > 0 (big part)"
	c.Assumptions = []string{"oracle: sort by (weight desc, id asc) over the final map of non-zero pairs; big-integer arithmetic of math/big"}
	n := c.Pick(30000, 1500000)
	c.Parallel(n, 0, func(i int) { c12Plain(c, c.Rand("plain", i), i) })
	na := c.Pick(20000, 500000)
	c.Parallel(na, 0, func(i int) { c12Aliasing(c, c.Rand("alias", i), i) })
	c.Parallel(na, 0, func(i int) { c12HandMadeRLP(c, c.Rand("handmade", i), i) })
	nb := c.Pick(30000, 1000000)
	c.Parallel(nb, 0, func(i int) { c12Big(c, c.Rand("big", i), i) })
}

func c12Plain(c *ev.Ctx, r *rand.Rand, caseN int) {
	k := 1 + r.Intn(7)
	type ins struct {
		id idx.ValidatorID
		w  uint64
	}
	var seq []ins
	tie, zero := false, false
	for j := 0; j < k; j++ {
		w := uint64(r.Intn(4))
		switch r.Intn(6) {
		case 0:
			w = 0
		case 1:
			w = uint64(1 + r.Intn(1<<20))
		case 2:
			w = (1<<31 - 1) / uint64(k)
		}
		id := idx.ValidatorID(1 + r.Intn(6))
		if r.Intn(4) == 0 {
			// IDs use the full 32 bits: the tie-break and any packed sort key must cope with them
			id = []idx.ValidatorID{0x7fffffff, 0x80000000, 0x80000001, 0xf0000000, 0xffffffff, 0}[r.Intn(6)]
		}
		seq = append(seq, ins{id, w})
	}
	final := func(s []ins) map[idx.ValidatorID]uint64 {
		m := map[idx.ValidatorID]uint64{}
		for _, x := range s {
			if x.w == 0 {
				delete(m, x.id)
			} else {
				m[x.id] = x.w
			}
		}
		return m
	}
	// permutations: each permutation is its own insertion history, so the oracle is computed per permutation
	var perms [][]int
	if k <= 5 {
		var gen func(a []int, l int)
		gen = func(a []int, l int) {
			if l == len(a) {
				perms = append(perms, append([]int{}, a...))
				return
			}
			for j := l; j < len(a); j++ {
				a[l], a[j] = a[j], a[l]
				gen(a, l+1)
				a[l], a[j] = a[j], a[l]
			}
		}
		base := make([]int, k)
		for j := range base {
			base[j] = j
		}
		gen(base, 0)
	} else {
		for j := 0; j < 4; j++ {
			perms = append(perms, r.Perm(k))
		}
	}
	for _, pm := range perms {
		s := make([]ins, k)
		for j, p := range pm {
			s[j] = seq[p]
		}
		b := pos.NewBuilder()
		for _, x := range s {
			b.Set(x.id, pos.Weight(x.w))
		}
		want := c12canon(final(s))
		seenW := map[uint64]bool{}
		for _, p := range want {
			if seenW[p.W] {
				tie = true
			}
			seenW[p.W] = true
		}
		if len(want) < k {
			zero = true
		}
		var v *pos.Validators
		if p, _ := ev.Try(func() { v = b.Build() }); p != nil {
			c.Violation("build-panics", map[string]interface{}{"case": caseN, "insertions": fmt.Sprint(s), "panic": fmt.Sprint(p)})
			return
		}
		if why := c12check(v, want); why != "" {
			c.Violation("canonical-form-wrong", map[string]interface{}{"case": caseN, "insertions": fmt.Sprint(s), "why": why, "got": v.String()})
			return
		}
		// same final pairs inserted in sorted and reverse order give the same object
		b2 := pos.NewBuilder()
		for j := len(want) - 1; j >= 0; j-- {
			b2.Set(want[j].ID, pos.Weight(want[j].W))
		}
		if why := c12check(b2.Build(), want); why != "" {
			c.Violation("canonical-form-depends-on-insertion-order", map[string]interface{}{"case": caseN, "insertions": fmt.Sprint(s), "why": why})
			return
		}
		// derived copies
		for name, d := range map[string]*pos.Validators{"Copy": v.Copy(), "Builder.Build": v.Builder().Build()} {
			if why := c12check(d, want); why != "" {
				c.Violation("copy-differs", map[string]interface{}{"case": caseN, "via": name, "why": why})
				return
			}
		}
		// RLP round trip
		enc, err := rlp.EncodeToBytes(v)
		if err != nil {
			c.Violation("rlp-encode-fails", map[string]interface{}{"case": caseN, "err": err.Error()})
			return
		}
		var dec pos.Validators
		if err := rlp.DecodeBytes(enc, &dec); err != nil {
			c.Violation("rlp-decode-fails", map[string]interface{}{"case": caseN, "err": err.Error()})
			return
		}
		if why := c12check(&dec, want); why != "" {
			c.Violation("rlp-round-trip-changes-set", map[string]interface{}{"case": caseN, "insertions": fmt.Sprint(s), "why": why})
			return
		}
		enc2, _ := rlp.EncodeToBytes(&dec)
		if !bytes.Equal(enc, enc2) {
			c.Violation("rlp-encoding-not-canonical", map[string]interface{}{"case": caseN, "insertions": fmt.Sprint(s)})
			return
		}
		c.Count("permutations_checked", 1)
	}
	c.Eval(1)
	if tie || zero {
		c.Nontrivial(ev.Hash("plain", fmt.Sprint(seq)))
	}
	if c.WantSample() {
		c.Sample(map[string]interface{}{"kind": "plain", "insertions": fmt.Sprint(seq), "permutations": len(perms)})
	}
}

func c12Big(c *ev.Ctx, r *rand.Rand, caseN int) {
	n := 1 + r.Intn(8)
	if r.Intn(10) == 0 {
		n = 20 + r.Intn(40)
	}
	bb := pos.NewBigBuilder()
	stakes := map[idx.ValidatorID]*big.Int{}
	one := big.NewInt(1)
	for i := 0; i < n; i++ {
		bits := []int{1, 8, 31, 32, 33, 63, 64, 65, 128, 200, 256}[r.Intn(11)]
		var s *big.Int
		switch r.Intn(6) {
		case 0:
			s = new(big.Int).Sub(new(big.Int).Lsh(one, uint(bits)), one) // 2^bits - 1
		case 1:
			s = new(big.Int).Lsh(one, uint(bits-1)) // exact power of two
		case 2:
			s = big.NewInt(int64(r.Intn(3))) // dust / zero
		case 3:
			s = new(big.Int).SetUint64(1<<63 + uint64(r.Intn(100))) // word-sized, sums wrap a uint64
		default:
			s = new(big.Int).Rand(r, new(big.Int).Lsh(one, uint(bits)))
		}
		id := idx.ValidatorID(1 + r.Intn(n+2))
		bb.Set(id, s)
		if s.Sign() == 0 {
			delete(stakes, id)
		} else {
			stakes[id] = s
		}
	}
	total := new(big.Int)
	for _, s := range stakes {
		total.Add(total, s)
	}
	desc := func() map[string]interface{} {
		m := map[string]interface{}{"case": caseN, "total": total.String()}
		ss := map[string]string{}
		for id, s := range stakes {
			ss[fmt.Sprint(id)] = s.String()
		}
		m["stakes"] = ss
		return m
	}
	var gotTotal *big.Int
	if p, _ := ev.Try(func() { gotTotal = bb.TotalWeight() }); p != nil || gotTotal == nil {
		m := desc()
		m["panic"], m["got_total"] = fmt.Sprint(p), "nil"
		c.Violation("big-total-wrong", m)
		return
	}
	if gotTotal.Cmp(total) != 0 {
		m := desc()
		m["got_total"] = gotTotal.String()
		c.Violation("big-total-wrong", m)
		return
	}
	if len(stakes) == 0 {
		c.Count("big_builders_without_any_stake", 1)
	}
	var v *pos.Validators
	if p, _ := ev.Try(func() { v = bb.Build() }); p != nil {
		m := desc()
		m["panic"] = fmt.Sprint(p)
		c.Violation("big-build-panics", m)
		return
	}
	shift := uint(0)
	if total.BitLen() > 31 {
		shift = uint(total.BitLen() - 31)
	}
	want := map[idx.ValidatorID]uint64{}
	for id, s := range stakes {
		want[id] = new(big.Int).Rsh(s, shift).Uint64()
	}
	canon := c12canon(want)
	if why := c12check(v, canon); why != "" {
		m := desc()
		m["why"], m["shift"], m["got"] = why, shift, v.String()
		c.Violation("big-build-scaling-or-order-wrong", m)
		return
	}
	// "just enough": with one bit less of shift the total would not fit
	if shift > 0 {
		var t2 uint64
		over := false
		for _, s := range stakes {
			x := new(big.Int).Rsh(s, shift-1)
			if !x.IsUint64() || t2+x.Uint64() < t2 {
				over = true
				break
			}
			t2 += x.Uint64()
		}
		if !over && t2 <= 1<<31-1 {
			// shift-1 would have fitted too: the specified shift is from bitlen(total), so this only means the
			// statement's formula is not the minimal one; not a violation, just counted.
			c.Count("big_sets_where_smaller_shift_would_fit", 1)
		}
	}
	// weight order follows stake order
	for a, sa := range stakes {
		for b, sb := range stakes {
			if sa.Cmp(sb) > 0 && v.Get(a) < v.Get(b) {
				m := desc()
				m["a"], m["b"] = a, b
				c.Violation("big-build-breaks-stake-order", m)
				return
			}
		}
	}
	// round trip of the scaled set
	enc, err := rlp.EncodeToBytes(v)
	var dec pos.Validators
	if err == nil {
		err = rlp.DecodeBytes(enc, &dec)
	}
	if err != nil || c12check(&dec, canon) != "" {
		m := desc()
		m["err"] = fmt.Sprint(err)
		c.Violation("rlp-round-trip-changes-set", m)
		return
	}
	c.Eval(1)
	if shift > 0 {
		c.Nontrivial(ev.Hash("big", total.String(), len(stakes)))
		c.Count("big_sets_scaled_down", 1)
	}
	if len(canon) < len(stakes) {
		c.Count("big_sets_with_dust_dropped", 1)
	}
}
