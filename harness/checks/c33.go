package checks

import (
	"fmt"
	"sort"

	"github.com/Fantom-foundation/lachesis-base/abft"
	"github.com/Fantom-foundation/lachesis-base/inter/idx"

	"verif/cons"
	"verif/ev"
)

// C33 Root registry returns exactly the registered roots.
func init() { register("C33", "exploration", runC33) }

func runC33(c *ev.Ctx) {
	c.Rule = "a bootstrapped instance gives a live epoch database (roots are registered from frame 2 upward so that a restart's Bootstrap, which replays known roots from frame 1, stays passive); the check then drives its *abft.Store directly with random sequences of 80 operations: AddRoot(selfParentFrame, event) with synthetic events of 4 creators (several roots per creator and frame = fork roots, registrations spanning 1..4 frames), one sequence in eight once puts 101-160 roots into a single frame; GetFrameRoots(f) for populated, empty and future frames, epoch switches by Reset (to the next epoch number, or to the same or an earlier number again; the harness keeps epoch databases like on-disk databases named after the epoch, so only Drop removes their content), and restarts (new Store over copies of the databases, possibly with another cache configuration); cache configurations RootsNum x RootsFrames from {0,1,2,3,100,1000}^2 (every second bulk registration goes into a frame that was queried just before, so with RootsNum=1000 the cached list itself grows past 100 entries). " +
		"Plus consensus-made switches: small real DAGs sealed by EndBlock at frame 1..3; right after the sealing Process call frames 0..8 of the new epoch are empty, afterwards each frame holds exactly the roots implied by the new epoch's events. Oracle: the returned slice, as a set of (creator, id), equals the model's set for that frame; every entry carries the queried frame; no entry twice; after an epoch switch every frame is empty. " +
		"non-trivial = distinct sequences in which a frame was queried, then received another root (also through a multi-frame registration), then was queried again, with a cache smaller than the number of roots or frames in play"
	c.Assumptions = []string{"each (event, frame) is registered once, as the orderer does", "AddRoot/GetFrameRoots are used from one goroutine (documented as not thread-safe)"}
	c.Parallel(c.Pick(400, 8000), 0, func(i int) { c33Sealed(c, i) })
	n := c.Pick(6000, 200000)
	sizes := []int{0, 1, 2, 3, 100, 1000} // 1000 x 100 is the library's default: only there does a list of 100+ roots stay cached
	c.Parallel(n, 0, func(i int) {
		r := c.Rand("seq", i)
		mkCfg := func() *abft.StoreConfig {
			return &abft.StoreConfig{Cache: abft.StoreCacheConfig{RootsNum: uint(sizes[r.Intn(len(sizes))]), RootsFrames: sizes[r.Intn(len(sizes))]}}
		}
		scfg := mkCfg()
		ids := []idx.ValidatorID{1, 2, 3, 4}
		vals := cons.BuildValidators(ids, []uint64{1, 1, 1, 1})
		in := cons.NewInst(1, vals, nil, cons.InstCfg{StoreCfg: scfg})
		model := map[idx.Frame]map[string]bool{}
		epoch := idx.Epoch(1)
		nid := 0
		var log []string
		queried := map[idx.Frame]bool{}
		requeriedAfterAdd := false
		addedAfterQuery := map[idx.Frame]bool{}
		small := scfg.Cache.RootsNum <= 3 || scfg.Cache.RootsFrames <= 3
		fail := func(why string) {
			c.Violation("root-registry-differs-from-model", map[string]interface{}{"case": i, "cache": fmt.Sprintf("%+v", scfg.Cache), "ops": log, "why": why})
		}
		bulkAt := -1
		if i%8 == 0 {
			bulkAt = r.Intn(80) // once in such a sequence: more than 100 roots land in one frame
		}
		for op := 0; op < 80; op++ {
			if op == bulkAt {
				sp := idx.Frame(1 + r.Intn(5))
				cnt := 101 + r.Intn(60)
				if r.Intn(2) == 0 { // the frame's list is in the cache (if the cache is large enough) while it grows past 100 entries
					log = append(log, fmt.Sprintf("GetFrameRoots(%d) [warm-up, result not compared]", sp+1))
					in.Store.GetFrameRoots(sp + 1)
					queried[sp+1] = true
					c.Count("bulk_registrations_into_a_cached_frame", 1)
				}
				log = append(log, fmt.Sprintf("AddRoot x%d (sp=%d, frame=%d)", cnt, sp, sp+1))
				for q := 0; q < cnt; q++ {
					e := &cons.Ev{}
					e.SetEpoch(epoch)
					e.SetCreator(ids[r.Intn(4)])
					e.SetFrame(sp + 1)
					e.SetLamport(idx.Lamport(1 + r.Intn(3)))
					nid++
					e.SetID([24]byte{byte(nid), byte(nid >> 8), byte(r.Intn(3))})
					if p, _ := ev.Try(func() { in.Store.AddRoot(sp, e) }); p != nil {
						fail(fmt.Sprint("AddRoot panics: ", p))
						return
					}
					if model[sp+1] == nil {
						model[sp+1] = map[string]bool{}
					}
					model[sp+1][fmt.Sprintf("%d/%s", e.Creator(), e.ID().Hex())] = true
				}
				if queried[sp+1] {
					addedAfterQuery[sp+1] = true
				}
				c.Count("frames_with_more_than_100_roots", 1)
				continue
			}
			switch k := r.Intn(20); {
			case k < 8:
				e := &cons.Ev{}
				e.SetEpoch(epoch)
				e.SetCreator(ids[r.Intn(4)])
				sp := idx.Frame(1 + r.Intn(5)) // frame 1 stays empty so that a restart's election bootstrap finds nothing to replay
				fr := sp + idx.Frame(1+r.Intn(4))
				if r.Intn(3) > 0 {
					fr = sp + 1
				}
				e.SetFrame(fr)
				e.SetLamport(idx.Lamport(1 + r.Intn(3)))
				nid++
				e.SetID([24]byte{byte(nid), byte(nid >> 8), byte(r.Intn(3))})
				log = append(log, fmt.Sprintf("AddRoot(sp=%d, creator=%d frame=%d id#%d)", sp, e.Creator(), fr, nid))
				if p, _ := ev.Try(func() { in.Store.AddRoot(sp, e) }); p != nil {
					fail(fmt.Sprint("AddRoot panics: ", p))
					return
				}
				for f := sp + 1; f <= fr; f++ {
					if model[f] == nil {
						model[f] = map[string]bool{}
					}
					model[f][fmt.Sprintf("%d/%s", e.Creator(), e.ID().Hex())] = true
					if queried[f] {
						addedAfterQuery[f] = true
					}
				}
			case k < 17:
				f := idx.Frame(r.Intn(10))
				log = append(log, fmt.Sprintf("GetFrameRoots(%d)", f))
				got := in.Store.GetFrameRoots(f)
				var gs, ws []string
				seen := map[string]bool{}
				for _, g := range got {
					if g.Slot.Frame != f {
						fail(fmt.Sprintf("entry with frame %d returned for frame %d", g.Slot.Frame, f))
						return
					}
					key := fmt.Sprintf("%d/%s", g.Slot.Validator, g.ID.Hex())
					if seen[key] {
						fail(fmt.Sprintf("frame %d: root %s returned twice", f, key))
						return
					}
					seen[key] = true
					gs = append(gs, key)
				}
				for w := range model[f] {
					ws = append(ws, w)
				}
				sort.Strings(gs)
				sort.Strings(ws)
				if fmt.Sprint(gs) != fmt.Sprint(ws) {
					fail(fmt.Sprintf("frame %d: got %d roots %v, registered %d %v", f, len(gs), gs, len(ws), ws))
					return
				}
				c.Count("queries_compared", 1)
				if addedAfterQuery[f] {
					requeriedAfterAdd = true
				}
				queried[f] = true
			case k < 18:
				if r.Intn(2) == 0 {
					epoch++
				} else {
					epoch = idx.Epoch(1 + r.Intn(int(epoch)+1)) // the same or an earlier epoch number is entered again: it must start empty too
					c.Count("epoch_numbers_entered_again", 1)
				}
				log = append(log, fmt.Sprintf("Reset(epoch %d)", epoch))
				if err := in.Reset(epoch, vals); err != nil {
					fail("Reset: " + err.Error())
					return
				}
				model = map[idx.Frame]map[string]bool{}
				queried, addedAfterQuery = map[idx.Frame]bool{}, map[idx.Frame]bool{}
				c.Count("epoch_switches", 1)
			default:
				if r.Intn(2) == 0 {
					scfg = mkCfg()
					in.Cfg.StoreCfg = scfg
				}
				log = append(log, fmt.Sprintf("restart (cache %+v)", scfg.Cache))
				in = in.Restart()
				queried, addedAfterQuery = map[idx.Frame]bool{}, map[idx.Frame]bool{}
				c.Count("restarts", 1)
			}
		}
		c.Eval(1)
		if requeriedAfterAdd && small {
			c.Nontrivial(ev.Hash(log))
		}
		if c.WantSample() {
			c.Sample(map[string]interface{}{"case": i, "cache": fmt.Sprintf("%+v", scfg.Cache), "ops": log})
		}
	})
}
