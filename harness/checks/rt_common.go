package checks

import (
	"sync"
	"sync/atomic"
	"time"
)

// E5: real-time scenarios. Components that read the wall clock or use timers internally cannot be driven by
// logical time; their timing clauses are decided with generous margins and a scheduling canary: a goroutine
// that sleeps a short interval in a loop and records its worst oversleep. A timing verdict reached while the
// canary was unhealthy is inconclusive, never a violation.

type canary struct {
	stop  chan struct{}
	wg    sync.WaitGroup
	worst int64 // ns
}

func startCanary() *canary {
	c := &canary{stop: make(chan struct{})}
	// several canaries: a stall can hit one scheduler thread and spare another
	for k := 0; k < 4; k++ {
		c.spawn()
	}
	return c
}

func (c *canary) spawn() {
	c.wg.Add(1)
	go func() {
		defer c.wg.Done()
		const step = 2 * time.Millisecond
		for {
			select {
			case <-c.stop:
				return
			default:
			}
			t0 := time.Now()
			time.Sleep(step)
			over := int64(time.Since(t0) - step)
			for {
				w := atomic.LoadInt64(&c.worst)
				if over <= w || atomic.CompareAndSwapInt64(&c.worst, w, over) {
					break
				}
			}
		}
	}()
}

func (c *canary) Stop() time.Duration {
	close(c.stop)
	c.wg.Wait()
	return time.Duration(atomic.LoadInt64(&c.worst))
}

func (c *canary) Worst() time.Duration { return time.Duration(atomic.LoadInt64(&c.worst)) }

// rtVerdict runs scenario up to `tries` times; scenario returns (violationClass, detail). A violation is
// accepted only if the canary stayed below maxOversleep during that try; otherwise the try is inconclusive.
// rtInconclusive is returned by a scenario that found its own actions mistimed (the harness was held up): the run is
// repeated and counted as inconclusive, never as a violation.
const rtInconclusive = "inconclusive:harness-mistimed"

func rtVerdict(tries int, maxOversleep time.Duration, scenario func() (string, map[string]interface{})) (cls string, detail map[string]interface{}, inconclusive int) {
	for t := 0; t < tries; t++ {
		cn := startCanary()
		cls, detail = scenario()
		worst := cn.Stop()
		if cls == "" {
			return "", nil, inconclusive
		}
		if cls == rtInconclusive {
			inconclusive++
			continue
		}
		if worst <= maxOversleep {
			if detail == nil {
				detail = map[string]interface{}{}
			}
			detail["canary_worst_oversleep"] = worst.String()
			detail["attempt"] = t + 1
			return cls, detail, inconclusive
		}
		inconclusive++
	}
	return "", nil, inconclusive
}
