package checks

import (
	"errors"
	"fmt"
	"math/rand"
	"sync"
	"time"

	"github.com/Fantom-foundation/lachesis-base/gossip/basestream"
	"github.com/Fantom-foundation/lachesis-base/gossip/basestream/basestreamseeder"

	"verif/ev"
)

// c17FailingSends: a peer whose connection is gone - every SendChunk returns an error - requests far more than the
// pending-response limit. The memory of its responses must be given back all the same: afterwards the accounting
// (hook VerifPendingResponsesSize) is back at zero and a healthy peer is served in order, with its done.
func c17FailingSends(c *ev.Ctx, r *rand.Rand, caseN int) {
	N := 300
	limit := int64(300 + r.Intn(500))
	cfg := basestreamseeder.Config{SenderThreads: 1 + r.Intn(3), MaxSenderTasks: 256, MaxPendingResponsesSize: limit, MaxResponsePayloadNum: uint32(2 + r.Intn(5)), MaxResponsePayloadSize: 200, MaxResponseChunks: 8}
	s := basestreamseeder.New(cfg, basestreamseeder.Callbacks{ForEachItem: c17forEach(N)})
	s.Start()
	defer s.Stop()
	var mu sync.Mutex
	failed := 0
	broken := basestreamseeder.Peer{ID: "broken",
		SendChunk: func(resp basestream.Response) error {
			mu.Lock()
			failed += len(resp.Payload.(*c17payload).items)
			mu.Unlock()
			if caseN%2 == 0 {
				time.Sleep(50 * time.Microsecond)
			}
			return errors.New("connection closed")
		},
		Misbehaviour: func(error) {}}
	var got []int
	gotDone := 0
	healthyChunks := 0
	cond := sync.NewCond(&mu)
	healthy := basestreamseeder.Peer{ID: "healthy",
		SendChunk: func(resp basestream.Response) error {
			mu.Lock()
			got = append(got, resp.Payload.(*c17payload).items...)
			healthyChunks++
			if resp.Done {
				gotDone++
			}
			cond.Broadcast()
			mu.Unlock()
			return nil
		},
		Misbehaviour: func(error) {}}
	// the broken peer asks for everything, several sessions, many chunks
	for k := 0; k < 4+r.Intn(4); k++ {
		_, _ = s.NotifyRequestReceived(broken, basestream.Request{Session: basestream.Session{ID: uint32(100 + k%3), Start: c17loc(0), Stop: c17loc(N)}, MaxChunks: cfg.MaxResponseChunks, MaxPayloadNum: cfg.MaxResponsePayloadNum, MaxPayloadSize: 200})
	}
	start, stop := r.Intn(50), 60+r.Intn(60)
	rounds := 0
	chunks := 0 // responses the healthy peer received (counted in its SendChunk below via len of batches)
	for rounds < 60 {
		rounds++
		mu.Lock()
		before := healthyChunks
		mu.Unlock()
		_, _ = s.NotifyRequestReceived(healthy, basestream.Request{Session: basestream.Session{ID: 7, Start: c17loc(start), Stop: c17loc(stop)}, MaxChunks: cfg.MaxResponseChunks, MaxPayloadNum: cfg.MaxResponsePayloadNum, MaxPayloadSize: 200})
		mu.Lock()
		waitUntil := time.Now().Add(5 * time.Second)
		for gotDone == 0 && healthyChunks < before+int(cfg.MaxResponseChunks) && time.Now().Before(waitUntil) {
			t := time.AfterFunc(20*time.Millisecond, func() { mu.Lock(); cond.Broadcast(); mu.Unlock() })
			cond.Wait()
			t.Stop()
		}
		stalled := gotDone == 0 && healthyChunks < before+int(cfg.MaxResponseChunks)
		d := gotDone
		chunks = healthyChunks
		mu.Unlock()
		if d > 0 || stalled {
			break
		}
	}
	_ = chunks
	time.Sleep(3 * time.Millisecond)
	mu.Lock()
	defer mu.Unlock()
	c.Eval(1)
	desc := map[string]interface{}{"case": caseN, "limit": limit, "items_of_failed_sends": failed, "healthy_session": fmt.Sprintf("[%d,%d)", start, stop), "healthy_received": len(got), "healthy_done": gotDone, "request_rounds": rounds}
	if gotDone != 1 {
		desc["why"] = "after a peer's sends failed (more bytes than the pending-response limit in total) another peer is no longer served to the end of its session"
		c.Violation("response-missing", desc)
		return
	}
	for k, it := range got {
		if it != start+k {
			desc["item"], desc["expected"] = it, start+k
			c.Violation("session-stream-broken", desc)
			return
		}
	}
	if len(got) != stop-start {
		desc["why"] = "done before the stop"
		c.Violation("session-stream-broken", desc)
		return
	}
	// the accounting is given back right AFTER a send returns, i.e. possibly a moment after the healthy peer saw its done:
	// wait for it (a leak never goes away, so only the length of the wait is a matter of scheduling)
	p := s.VerifPendingResponsesSize()
	for w := 0; p != 0 && w < 4000; w++ {
		mu.Unlock()
		time.Sleep(5 * time.Millisecond)
		mu.Lock()
		p = s.VerifPendingResponsesSize()
	}
	if p != 0 {
		desc["pending_bytes_at_rest"] = p
		c.Violation("pending-response-memory-exceeds-limit", desc)
		return
	}
	c.Count("runs_with_failing_sends", 1)
	c.Count("items_in_failed_sends", int64(failed))
	c.Nontrivial(ev.Hash("c17fail", caseN))
}
