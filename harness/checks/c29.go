package checks

import (
	"fmt"
	"math/rand"
	"sort"

	"github.com/Fantom-foundation/lachesis-base/utils/simplewlru"
	"github.com/Fantom-foundation/lachesis-base/utils/wlru"

	"verif/ev"
)

// C29 Weighted LRU caches follow the LRU model (sequential model check of simplewlru and wlru).
func init() { register("C29", "exploration", runC29) }

type lruEnt struct {
	k, v int
	w    uint
}
type lruModel struct {
	ents      []lruEnt // oldest first
	maxW      uint
	maxN      int
	evictions []int
}

func (m *lruModel) weight() (w uint) {
	for _, e := range m.ents {
		w += e.w
	}
	return
}
func (m *lruModel) find(k int) int {
	for i, e := range m.ents {
		if e.k == k {
			return i
		}
	}
	return -1
}
func (m *lruModel) normalize() (n int) {
	for m.weight() > m.maxW || len(m.ents) > m.maxN {
		m.evictions = append(m.evictions, m.ents[0].k)
		m.ents = m.ents[1:]
		n++
	}
	return
}
func (m *lruModel) add(k, v int, w uint) int {
	if i := m.find(k); i >= 0 {
		m.ents = append(m.ents[:i:i], m.ents[i+1:]...)
	}
	m.ents = append(m.ents, lruEnt{k, v, w})
	return m.normalize()
}

// lruAPI is the common surface of simplewlru.Cache and wlru.Cache
type lruAPI interface {
	Purge()
	Add(key, value interface{}, weight uint) (evicted int)
	Get(key interface{}) (value interface{}, ok bool)
	Contains(key interface{}) bool
	Peek(key interface{}) (value interface{}, ok bool)
	Remove(key interface{}) bool
	RemoveOldest() (key interface{}, value interface{}, ok bool)
	GetOldest() (key interface{}, value interface{}, ok bool)
	Keys() []interface{}
	Len() int
	Weight() uint
	Total() (uint, int)
	Resize(maxWeight uint, maxSize int) int
}

func runC29(c *ev.Ctx) {
	c.Rule = "random sequences of 60 operations (add, get, peek, contains, remove, remove-oldest, get-oldest, resize, purge, contains-or-add, peek-or-add) over keys 0..5, weights 0..5 (also heavier than the bound), weight bound 0..8, size bound 0..5, on simplewlru.Cache and on the thread-safe wlru.Cache, each built with and without an eviction callback; one value in seven is a stored nil; " +
		"after EVERY operation: return values equal the list model's, Len/Weight/Total equal the model and are within the bounds, Keys() equals the model order oldest->newest, and (with a callback) the eviction callback log equals the model's removals (same keys, same order; for purge as a multiset), each exactly once. " +
		"non-trivial = distinct operation sequences that contained an eviction caused by weight (not size), an overweight add and a recency refresh by get"
	c.Assumptions = []string{"model: ordered list, newest at the back; add of an existing key refreshes recency and replaces value and weight; an entry heavier than the bound is added and evicted at once"}
	n := c.Pick(40000, 2000000)
	c.Parallel(n, 0, func(i int) { c29Seq(c, c.Rand("seq", i), i) })
}

func c29Seq(c *ev.Ctx, r *rand.Rand, caseN int) {
	m := &lruModel{maxW: uint(r.Intn(9)), maxN: r.Intn(6)}
	var got []int
	onEvict := func(k, v interface{}) { got = append(got, k.(int)) }
	// values with v%7 == 3 are stored as nil: a cached nil is still a cached entry
	val := func(v int) interface{} {
		if v%7 == 3 {
			return nil
		}
		return v
	}
	same := func(x interface{}, v int) bool {
		if v%7 == 3 {
			return x == nil
		}
		xi, ok := x.(int)
		return ok && xi == v
	}
	var cache lruAPI
	var safe *wlru.Cache
	withCallback := caseN%4 < 2 // the other half is built without an eviction callback
	var err error
	if caseN%2 == 0 {
		var x *simplewlru.Cache
		if withCallback {
			x, err = simplewlru.NewWithEvict(m.maxW, m.maxN, onEvict)
		} else {
			x, err = simplewlru.New(m.maxW, m.maxN)
		}
		cache = x
	} else {
		var x *wlru.Cache
		if withCallback {
			x, err = wlru.NewWithEvict(m.maxW, m.maxN, onEvict)
		} else {
			x, err = wlru.New(m.maxW, m.maxN)
		}
		cache, safe = x, x
	}
	if err != nil {
		panic(err)
	}
	var log []string
	weightEvict, overweight, refresh := false, false, false
	fail := func(why string) {
		c.Violation("lru-differs-from-model", map[string]interface{}{"case": caseN, "impl": map[bool]string{true: "wlru", false: "simplewlru"}[safe != nil], "ops": log, "why": why, "model": fmt.Sprint(m.ents), "keys": fmt.Sprint(cache.Keys())})
	}
	for op := 0; op < 60; op++ {
		k, v, w := r.Intn(6), r.Intn(100), uint(r.Intn(6))
		if r.Intn(12) == 0 {
			w = m.maxW + 1 + uint(r.Intn(3))
		}
		kind := r.Intn(12)
		if safe == nil && kind >= 10 {
			kind = r.Intn(10)
		}
		switch kind {
		case 0, 1, 2:
			log = append(log, fmt.Sprintf("add k%d v%d w%d", k, v, w))
			if w > m.maxW {
				overweight = true
			}
			before := len(m.ents)
			a, b := cache.Add(k, val(v), w), m.add(k, v, w)
			if b > 0 && before+1 <= m.maxN {
				weightEvict = true
			}
			if a != b {
				fail(fmt.Sprintf("Add returned %d evictions, model %d", a, b))
				return
			}
		case 3:
			log = append(log, fmt.Sprintf("get k%d", k))
			gv, ok := cache.Get(k)
			i := m.find(k)
			if ok != (i >= 0) || (ok && !same(gv, m.ents[i].v)) {
				fail("Get result")
				return
			}
			if i >= 0 {
				if i != len(m.ents)-1 {
					refresh = true
				}
				e := m.ents[i]
				m.ents = append(append(m.ents[:i:i], m.ents[i+1:]...), e)
			}
		case 4:
			log = append(log, fmt.Sprintf("peek+contains k%d", k))
			pv, ok := cache.Peek(k)
			i := m.find(k)
			if ok != (i >= 0) || cache.Contains(k) != ok || (ok && !same(pv, m.ents[i].v)) {
				fail("Peek/Contains result")
				return
			}
		case 5:
			log = append(log, fmt.Sprintf("remove k%d", k))
			i := m.find(k)
			if cache.Remove(k) != (i >= 0) {
				fail("Remove result")
				return
			}
			if i >= 0 {
				m.evictions = append(m.evictions, k)
				m.ents = append(m.ents[:i:i], m.ents[i+1:]...)
			}
		case 6:
			log = append(log, "removeOldest")
			rk, rv, ok := cache.RemoveOldest()
			if ok != (len(m.ents) > 0) || (ok && (rk.(int) != m.ents[0].k || !same(rv, m.ents[0].v))) {
				fail("RemoveOldest result")
				return
			}
			if ok {
				m.evictions = append(m.evictions, m.ents[0].k)
				m.ents = m.ents[1:]
			}
		case 7:
			m.maxW, m.maxN = uint(r.Intn(9)), r.Intn(6)
			log = append(log, fmt.Sprintf("resize w%d n%d", m.maxW, m.maxN))
			if a, b := cache.Resize(m.maxW, m.maxN), m.normalize(); a != b {
				fail(fmt.Sprintf("Resize returned %d, model %d", a, b))
				return
			}
		case 8:
			if r.Intn(4) != 0 {
				continue
			}
			log = append(log, "purge")
			cache.Purge()
			tail := append([]int{}, got[len(got)-minI(len(got), len(m.ents)):]...)
			var want []int
			for _, e := range m.ents {
				want = append(want, e.k)
			}
			if !withCallback {
				m.ents = nil
				got, m.evictions = nil, nil
				break
			}
			if len(got) != len(m.evictions)+len(want) {
				fail(fmt.Sprintf("purge reported %d evictions, model %d", len(got)-len(m.evictions), len(want)))
				return
			}
			sort.Ints(tail)
			sort.Ints(want)
			if fmt.Sprint(tail) != fmt.Sprint(want) {
				fail("purge eviction multiset")
				return
			}
			m.ents = nil
			got, m.evictions = nil, nil
		case 9:
			log = append(log, "getOldest")
			gk, gv, ok := cache.GetOldest()
			if ok != (len(m.ents) > 0) || (ok && (gk.(int) != m.ents[0].k || !same(gv, m.ents[0].v))) {
				fail("GetOldest result")
				return
			}
		case 10:
			log = append(log, fmt.Sprintf("containsOrAdd k%d v%d w%d", k, v, w))
			i := m.find(k)
			ok, evd := safe.ContainsOrAdd(k, val(v), w)
			wantE := 0
			if i < 0 {
				wantE = m.add(k, v, w)
			}
			if ok != (i >= 0) || evd != wantE {
				fail(fmt.Sprintf("ContainsOrAdd returned (%v,%d), model (%v,%d)", ok, evd, i >= 0, wantE))
				return
			}
		case 11:
			log = append(log, fmt.Sprintf("peekOrAdd k%d v%d w%d", k, v, w))
			i := m.find(k)
			prev, ok, evd := safe.PeekOrAdd(k, val(v), w)
			wantE := 0
			if i < 0 {
				wantE = m.add(k, v, w)
			}
			if ok != (i >= 0) || evd != wantE || (ok && !same(prev, m.ents[i].v)) {
				fail(fmt.Sprintf("PeekOrAdd returned (%v,%v,%d), model present=%v evicted=%d", prev, ok, evd, i >= 0, wantE))
				return
			}
		}
		if withCallback && fmt.Sprint(got) != fmt.Sprint(m.evictions) {
			fail(fmt.Sprintf("eviction callback log %v, model %v", got, m.evictions))
			return
		}
		keys := cache.Keys()
		tw, tn := cache.Total()
		if len(keys) != len(m.ents) || cache.Len() != len(m.ents) || cache.Weight() != m.weight() || tw != m.weight() || tn != len(m.ents) {
			fail(fmt.Sprintf("len/weight %d/%d (Total %d/%d), model %d/%d", cache.Len(), cache.Weight(), tn, tw, len(m.ents), m.weight()))
			return
		}
		for i, kk := range keys {
			if kk.(int) != m.ents[i].k {
				fail("Keys() order")
				return
			}
		}
		if cache.Weight() > m.maxW || cache.Len() > m.maxN {
			fail("bounds exceeded")
			return
		}
		c.Count("operations_checked", 1)
	}
	c.Eval(1)
	if weightEvict && overweight && refresh {
		c.Nontrivial(ev.Hash(log))
	}
	if c.WantSample() {
		c.Sample(map[string]interface{}{"case": caseN, "ops": log})
	}
}
