package checks

import (
	"fmt"

	"github.com/Fantom-foundation/lachesis-base/hash"
	"github.com/Fantom-foundation/lachesis-base/inter/idx"

	"verif/cons"
	"verif/ev"
)

// c05DroppedBatch: what an index answers must not depend on batches that were indexed, asked about and dropped before.
// On top of a generated DAG two fork twins F1, F2 of one creator and an event A (by another creator) that sees only F1
// are indexed without flushing in the order F1, F2, A; A is asked about; everything is dropped; then F2, F1, A are
// indexed for good (the twins now get each other's branch numbers). A second, fresh index gets the final order only.
// Both must agree on ForklessCause(A, b) and (b, A) for every b - and with each other on the merged clock of A.
func c05DroppedBatch(c *ev.Ctx, i int) {
	r := c.Rand("dropped", i)
	plans := cons.RandomPlans(r, 1, 7, false, cons.CheatAny)
	plan := plans[0]
	n := len(plan.IDs)
	if n < 3 {
		return
	}
	cfg := &cons.GenCfg{Plans: plans, Plain: true, EventsPer: 8 + r.Intn(30), MinParents: 1, MaxParents: 2 + r.Intn(n), ForkProb: 0.1}
	d, _, err := cons.Generate(r, cfg)
	if err != nil || len(d.Epochs) == 0 {
		return
	}
	evs := d.Epochs[0].Events
	tips := map[idx.ValidatorID]*cons.Ev{}
	for _, e := range evs {
		tips[e.Creator()] = e
	}
	if len(tips) < 3 {
		return
	}
	var creators []idx.ValidatorID
	for _, id := range plan.IDs {
		if tips[id] != nil {
			creators = append(creators, id)
		}
	}
	r.Shuffle(len(creators), func(a, b int) { creators[a], creators[b] = creators[b], creators[a] })
	cF, cA, cP := creators[0], creators[1], creators[2]
	mk := func(creator idx.ValidatorID, sp *cons.Ev, others []*cons.Ev, salt uint64, name string) *cons.Ev {
		e := &cons.Ev{Name: name}
		e.SetEpoch(sp.Epoch())
		e.SetCreator(creator)
		e.SetSeq(sp.Seq() + 1)
		ps := hash.Events{sp.ID()}
		lam := sp.Lamport()
		for _, o := range others {
			ps = append(ps, o.ID())
			if o.Lamport() > lam {
				lam = o.Lamport()
			}
		}
		e.SetParents(ps)
		e.SetLamport(lam + 1)
		e.SetFrame(1)
		e.SetHashID(salt)
		return e
	}
	f1 := mk(cF, tips[cF], nil, 1, "F1")
	f2 := mk(cF, tips[cF], []*cons.Ev{tips[cP]}, 2, "F2")
	// everybody but cP (and the forker) builds on F1; A builds on all of them: without the forker's weight A's view of F1
	// rests on the others alone, so whether the forker's own branch is read correctly decides many of the answers
	var hs []*cons.Ev
	for _, o := range creators[3:] {
		hs = append(hs, mk(o, tips[o], []*cons.Ev{f1}, 4, fmt.Sprintf("H%d", o)))
	}
	a := mk(cA, tips[cA], append([]*cons.Ev{f1}, hs...), 3, "A")
	dirty, clean := newVecIdx(plan, cons.IndexCfg(i%3)), newVecIdx(plan, cons.IndexCfg(i%3))
	for _, e := range evs {
		if dirty.add(e) != nil || clean.add(e) != nil {
			c.Count("other_property_discrepancy_index-add-failed", 1)
			return
		}
	}
	desc := func() map[string]interface{} {
		return map[string]interface{}{"case": i, "twins_of": cF, "A_by": cA, "dag": describeDAG(d)}
	}
	// dirty: first round, unflushed
	var bad interface{}
	bad, _ = ev.Try(func() {
		for _, e := range append(append([]*cons.Ev{f1, f2}, hs...), a) {
			dirty.src[e.ID()] = e
			if err := dirty.vi.Add(e); err != nil {
				panic(err)
			}
		}
		// only pairs that will not be asked first afterwards: answers are memoised per pair, and the point is a question about
		// A that has to be computed anew right after the re-indexing
		dirty.vi.ForklessCause(tips[cP].ID(), a.ID())
		dirty.vi.ForklessCause(a.ID(), tips[cP].ID()) // the last question before the drop is about A
		dirty.vi.DropNotFlushed()
		for _, e := range append(append([]*cons.Ev{f1, f2}, hs...), a) {
			delete(dirty.src, e.ID())
		}
	})
	if bad != nil {
		m := desc()
		m["panic"] = fmt.Sprint(bad)
		c.Violation("index-add-failed", m)
		return
	}
	for _, x := range []*vecIdx{dirty, clean} {
		for _, e := range append(append([]*cons.Ev{f2, f1}, hs...), a) {
			if err := x.add(e); err != nil {
				m := desc()
				m["err"] = err.Error()
				c.Violation("index-add-failed", m)
				return
			}
		}
	}
	all := append(append(append([]*cons.Ev{}, evs...), f1, f2, a), hs...)
	// the first questions after re-indexing are about A again
	order := append([]*cons.Ev{f1, f2, tips[cF], tips[cP]}, all...)
	for dir := 0; dir < 2; dir++ {
		for _, b := range order {
			x, y := a, b
			if dir == 1 {
				x, y = b, a
			}
			g1, g2 := dirty.vi.ForklessCause(x.ID(), y.ID()), clean.vi.ForklessCause(x.ID(), y.ID())
			c.Count("fc_pairs_compared_after_a_dropped_batch", 1)
			if g1 != g2 {
				m := desc()
				m["a"], m["b"], m["index_with_dropped_batch"], m["fresh_index"] = x.Name, y.Name, g1, g2
				c.Violation("forkless-cause-differs-from-definition", m)
				return
			}
		}
	}
	c.Eval(1)
	c.Nontrivial(ev.Hash("dropped", d.FP, cF, cA))
}
