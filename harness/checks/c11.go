package checks

import (
	"fmt"
	"math/rand"

	"github.com/Fantom-foundation/lachesis-base/inter/idx"
	"github.com/Fantom-foundation/lachesis-base/inter/pos"

	"verif/ev"
)

// C11 Quorum arithmetic is safe for every validator set.
//
// Oracle: uint64 arithmetic written from the statement. Three workloads:
//
//	(a) totals sweep: for each total T a one-validator set {T} and two two-validator sets that split T so
//	    that one member weighs exactly floor(2T/3) (must NOT be a quorum alone) resp. exactly
//	    floor(2T/3)+1 (must be a quorum alone);
//	(b) random multi-validator sets with random / boundary subsets, pairwise quorum intersection;
//	(c) random Count/CountByIdx call sequences with repeats against a set model.
func init() { register("C11", "exploration", runC11) }

const maxTotal = uint64(1<<31 - 1)

func c11CheckTotal(c *ev.Ctx, T uint64) {
	q := T*2/3 + 1
	// (a1) single validator
	b := pos.NewBuilder()
	b.Set(7, pos.Weight(T))
	v := b.Build()
	if uint64(v.TotalWeight()) != T || uint64(v.Quorum()) != q {
		c.Violation("quorum-formula", map[string]interface{}{"total": T, "quorum_got": v.Quorum(), "quorum_want": q, "total_got": v.TotalWeight()})
		return
	}
	wc := v.NewCounter()
	if wc.HasQuorum() {
		c.Violation("empty-subset-has-quorum", map[string]interface{}{"total": T})
	}
	if !wc.Count(7) || wc.Count(7) || uint64(wc.Sum()) != T || !wc.HasQuorum() {
		c.Violation("whole-set-no-quorum-or-double-count", map[string]interface{}{"total": T, "sum": wc.Sum()})
	}
	if T < 2 {
		return
	}
	// (a2) member of weight exactly floor(2T/3): not a quorum; (a3) exactly q: quorum
	lo := T * 2 / 3
	for k, a := range []uint64{lo, q} {
		if a == 0 || a >= T {
			continue
		}
		b := pos.NewBuilder()
		b.Set(1, pos.Weight(a))
		b.Set(2, pos.Weight(T-a))
		v := b.Build()
		if uint64(v.Quorum()) != q {
			c.Violation("quorum-formula", map[string]interface{}{"total": T, "split": a, "quorum_got": v.Quorum(), "quorum_want": q})
			continue
		}
		wc := v.NewCounter()
		wc.Count(1)
		want := k == 1
		if wc.HasQuorum() != want {
			c.Violation("boundary-subset", map[string]interface{}{"total": T, "subset_weight": a, "has_quorum": wc.HasQuorum(), "want": want})
		}
		wc.Count(2)
		if !wc.HasQuorum() {
			c.Violation("whole-set-no-quorum-or-double-count", map[string]interface{}{"total": T, "split": a})
		}
	}
}

func runC11(c *ev.Ctx) {
	c.Rule = "totals sweep: one-validator set {T} plus two 2-validator splits with a member of weight exactly floor(2T/3) and exactly floor(2T/3)+1; " +
		"random sets of 1..12 validators with random and boundary subsets, pairwise quorum-intersection, Count/CountByIdx sequences with repeats vs a set model. " +
		"non-trivial = distinct (total) values for which a subset of weight exactly floor(2T/3) or exactly quorum was evaluated (sweep) or distinct (set,subset) fingerprints (random part)"
	c.Assumptions = []string{"oracle arithmetic in uint64 is correct", "validator sets are built through the public builder"}
	c.Rule += "; plus sets of 1..5 weights below 2^32 whose true total lies above the maximum (just above, 2^31..2^32, beyond 2^32 where a 32-bit sum wraps back under the limit): Build must refuse them; " +
		"plus sets counted whole (Count per member vs running sum, quorum flag, total and quorum unchanged) after the builder they came from, set.Builder() or set.Copy().Builder() was edited"
	c11Extra(c)
	c.Rule += "; plus counting sequences that also name IDs outside the set (the counted weight never shrinks or exceeds the total, moves only on a call reporting something new, the flag follows it, and naming every member afterwards counts the whole set)"
	c11Strangers(c)

	// ---- (a) totals sweep
	type rng struct{ lo, hi uint64 }
	var ranges []rng
	if c.Quick() {
		ranges = []rng{{1, 1 << 16}, {maxTotal - 1<<16, maxTotal}, {1<<30 - 1<<12, 1<<30 + 1<<12}, {1431655765 - 1<<12, 1431655765 + 1<<12}}
	} else {
		ranges = []rng{{1, maxTotal}}
		c.Exhaustive = true
	}
	const shard = 1 << 16
	type job struct{ lo, hi uint64 }
	var jobs []job
	for _, r := range ranges {
		for lo := r.lo; lo <= r.hi; lo += shard {
			hi := lo + shard - 1
			if hi > r.hi {
				hi = r.hi
			}
			jobs = append(jobs, job{lo, hi})
		}
	}
	c.Parallel(len(jobs), 0, func(i int) {
		j := jobs[i]
		for T := j.lo; T <= j.hi; T++ {
			c11CheckTotal(c, T)
		}
		n := int64(j.hi - j.lo + 1)
		c.Eval(n)
		c.Count("totals_swept", n)
		c.Count("boundary_subsets_checked", 2*n)
	})
	if c.Quick() {
		// plus random totals
		nr := 200000
		c.Parallel(16, 0, func(w int) {
			r := c.Rand("rt", w)
			for i := 0; i < nr/16; i++ {
				T := 1 + uint64(r.Int63n(int64(maxTotal)))
				c11CheckTotal(c, T)
				c.Nontrivial(ev.Hash("T", T))
			}
			c.Eval(int64(nr / 16))
			c.Count("totals_random", int64(nr/16))
		})
	}
	// non-trivial fingerprints for the sweep: each total is a distinct case; to keep memory bounded we
	// record one fingerprint per 4096 totals swept (conservative under-count).
	for _, j := range jobs {
		for T := j.lo; T <= j.hi; T += 4096 {
			c.Nontrivial(ev.Hash("Tsweep", T))
		}
	}
	c.Sample(map[string]interface{}{"kind": "total-sweep", "total": 1431655765, "splits": []uint64{1431655765 * 2 / 3, 1431655765*2/3 + 1}})

	// ---- (b)+(c) random multi-validator sets
	nsets := c.Pick(20000, 1000000)
	c.Parallel(nsets, 0, func(i int) { c11RandomSet(c, c.Rand("set", i), i) })
	nlarge := c.Pick(3000, 100000)
	c.Parallel(nlarge, 0, func(i int) { c11LargeSet(c, c.Rand("large", i), i) })
}

// c11LargeSet: sets of 13..300 validators (index ranges beyond one machine word), counting sequences
// with many repeats in random order against a set model.
func c11LargeSet(c *ev.Ctx, r *rand.Rand, caseN int) {
	n := []int{13, 31, 32, 33, 63, 64, 65, 66, 100, 127, 128, 129, 200, 300}[r.Intn(14)]
	b := pos.NewBuilder()
	wOf := map[idx.ValidatorID]uint64{}
	var T uint64
	for i := 0; i < n; i++ {
		w := uint64(1 + r.Intn(5))
		if r.Intn(10) == 0 {
			w = uint64(1 + r.Intn(1000))
		}
		id := idx.ValidatorID(1 + i)
		b.Set(id, pos.Weight(w))
		wOf[id] = w
		T += w
	}
	v := b.Build()
	q := T*2/3 + 1
	wc := v.NewCounter()
	model := map[idx.ValidatorID]bool{}
	var sum uint64
	steps := n + r.Intn(2*n)
	hot := idx.ValidatorID(1 + r.Intn(n)) // one validator counted over and over
	for s := 0; s < steps; s++ {
		id := idx.ValidatorID(1 + r.Intn(n))
		if r.Intn(3) == 0 {
			id = hot
		}
		var got bool
		if r.Intn(2) == 0 {
			got = wc.Count(id)
		} else {
			got = wc.CountByIdx(v.GetIdx(id))
		}
		want := !model[id]
		if want {
			model[id] = true
			sum += wOf[id]
		}
		c.Count("count_calls", 1)
		if got != want || uint64(wc.Sum()) != sum || wc.HasQuorum() != (sum >= q) {
			c.Violation("weight-counter-vs-set-model", map[string]interface{}{"case": caseN, "validators": n, "total": T, "step": s, "counted_id": id, "index": v.GetIdx(id),
				"returned": got, "want": want, "sum_got": wc.Sum(), "sum_want": sum, "has_quorum": wc.HasQuorum(), "quorum": q})
			return
		}
	}
	c.Eval(1)
	c.Nontrivial(ev.Hash("large", caseN, n, T))
}

func c11RandomSet(c *ev.Ctx, r *rand.Rand, caseN int) {
	n := 1 + r.Intn(12)
	var ws []uint64
	var T uint64
	mode := r.Intn(5)
	for i := 0; i < n; i++ {
		var w uint64
		switch mode {
		case 0:
			w = 1
		case 1:
			w = 1 + uint64(r.Intn(4))
		case 2:
			w = 1 + uint64(r.Int63n(int64(maxTotal)/int64(n)))
		case 3: // near the limit
			w = maxTotal / uint64(n)
			if w == 0 {
				w = 1
			}
		default: // whale
			if i == 0 {
				w = 1 + uint64(r.Intn(1000))*uint64(n)
			} else {
				w = 1 + uint64(r.Intn(3))
			}
		}
		if T+w > maxTotal {
			w = maxTotal - T
		}
		if w == 0 {
			break
		}
		ws = append(ws, w)
		T += w
	}
	n = len(ws)
	b := pos.NewBuilder()
	ids := make([]idx.ValidatorID, n)
	wOf := map[idx.ValidatorID]uint64{}
	for i := range ws {
		ids[i] = idx.ValidatorID(1 + i*3 + r.Intn(3))
		b.Set(ids[i], pos.Weight(ws[i]))
		wOf[ids[i]] = ws[i]
	}
	v := b.Build()
	q := T*2/3 + 1
	desc := func() map[string]interface{} {
		return map[string]interface{}{"case": caseN, "ids": ids, "weights": ws, "total": T}
	}
	if uint64(v.TotalWeight()) != T || uint64(v.Quorum()) != q {
		c.Violation("quorum-formula", desc())
		return
	}
	c.Eval(1)
	// subsets as bitmasks; include boundary subsets found by scanning all masks when n small
	var masks []uint32
	full := uint32(1)<<uint(n) - 1
	weight := func(m uint32) (s uint64) {
		for i := 0; i < n; i++ {
			if m&(1<<uint(i)) != 0 {
				s += ws[i]
			}
		}
		return
	}
	for k := 0; k < 6; k++ {
		masks = append(masks, uint32(r.Int63())&full)
	}
	masks = append(masks, full, 0)
	if n <= 10 {
		var bestLo, bestHi uint32
		var wLo, wHi uint64 = 0, T + 1
		for m := uint32(0); m <= full; m++ {
			w := weight(m)
			if w <= T*2/3 && w >= wLo {
				wLo, bestLo = w, m
			}
			if w >= q && w < wHi {
				wHi, bestHi = w, m
			}
		}
		masks = append(masks, bestLo, bestHi)
		if wLo == T*2/3 || wHi == q {
			c.Count("exact_boundary_subsets", 1)
		}
	}
	var quorumMasks []uint32
	for _, m := range masks {
		wc := v.NewCounter()
		model := map[idx.ValidatorID]bool{}
		var sum uint64
		// count members in random order with repeats, mixing Count and CountByIdx
		var seq []int
		for i := 0; i < n; i++ {
			if m&(1<<uint(i)) != 0 {
				seq = append(seq, i)
				if r.Intn(3) == 0 {
					seq = append(seq, i)
				}
			}
		}
		r.Shuffle(len(seq), func(a, b int) { seq[a], seq[b] = seq[b], seq[a] })
		for _, i := range seq {
			id := ids[i]
			var got bool
			if r.Intn(2) == 0 {
				got = wc.Count(id)
			} else {
				got = wc.CountByIdx(v.GetIdx(id))
			}
			want := !model[id]
			if want {
				model[id] = true
				sum += wOf[id]
			}
			c.Count("count_calls", 1)
			if got != want || uint64(wc.Sum()) != sum || wc.HasQuorum() != (sum >= q) {
				d := desc()
				d["subset_mask"], d["seq"], d["sum_got"], d["sum_want"], d["has_quorum"] = m, seq, wc.Sum(), sum, wc.HasQuorum()
				c.Violation("weight-counter-vs-set-model", d)
				return
			}
		}
		w := weight(m)
		if w != sum {
			panic("harness: subset weight mismatch")
		}
		if w <= T*2/3 && wc.HasQuorum() {
			d := desc()
			d["subset_mask"] = m
			c.Violation("two-thirds-subset-reaches-quorum", d)
		}
		if m == full && !wc.HasQuorum() {
			c.Violation("whole-set-no-quorum-or-double-count", desc())
		}
		if wc.HasQuorum() {
			quorumMasks = append(quorumMasks, m)
		}
		c.Nontrivial(ev.Hash(ws, m))
	}
	for i := range quorumMasks {
		for j := i + 1; j < len(quorumMasks); j++ {
			inter := weight(quorumMasks[i] & quorumMasks[j])
			c.Count("quorum_pairs_intersected", 1)
			if inter*3 <= T {
				d := desc()
				d["a"], d["b"], d["intersection"] = quorumMasks[i], quorumMasks[j], inter
				c.Violation("quorum-intersection-too-small", d)
			}
		}
	}
	if c.WantSample() {
		c.Sample(map[string]interface{}{"kind": "random-set", "weights": ws, "total": T, "quorum": q, "subset_masks": fmt.Sprint(masks)})
	}
}
