// Package ev is the verdict/evidence layer shared by all checks: seeds, counters measured by the
// monitors, violation reporting with replay files, known-finding lookup, and the evidence writer.
package ev

import (
	"encoding/json"
	"fmt"
	"hash/fnv"
	"math/rand"
	"os"
	"path/filepath"
	"runtime"
	"runtime/debug"
	"sort"
	"sync"
	"sync/atomic"
	"time"
)

// Root is the /verif directory (overridable for tests of the harness itself).
var Root = func() string {
	if r := os.Getenv("VERIF_ROOT"); r != "" {
		return r
	}
	return "/verif"
}()

type Finding struct {
	Property string `json:"property"`
	Kind     string `json:"kind"`  // "known" | "fixed"
	Match    string `json:"match"` // violation class, exact match
	Commit   string `json:"commit,omitempty"`
	Text     string `json:"text"`
}

type Ctx struct {
	ID    string
	Tier  string
	Seed  int64
	Level string

	Rule        string
	Assumptions []string
	Exhaustive  bool

	mu           sync.Mutex
	evaluations  int64
	nontrivial   map[uint64]struct{}
	counters     map[string]int64
	samples      []interface{}
	violations   int64
	violClasses  map[string]int
	knownHits    map[string]int
	inconclusive int64
	findings     []Finding
	start        time.Time
	replayN      int
}

func New(id, tier string, seed int64, level string) *Ctx {
	c := &Ctx{ID: id, Tier: tier, Seed: seed, Level: level,
		nontrivial: map[uint64]struct{}{}, counters: map[string]int64{},
		violClasses: map[string]int{}, knownHits: map[string]int{}, start: time.Now()}
	b, err := os.ReadFile(filepath.Join(Root, "known_findings.json"))
	if err == nil {
		var all []Finding
		if err := json.Unmarshal(b, &all); err != nil {
			fmt.Printf("BROKEN: known_findings.json does not parse: %v\n", err)
			os.Exit(2)
		}
		for _, f := range all {
			if f.Property == id {
				c.findings = append(c.findings, f)
			}
		}
	}
	return c
}

func (c *Ctx) Quick() bool { return c.Tier != "thorough" }

// Pick returns q in quick tier and t in thorough tier.
func (c *Ctx) Pick(q, t int) int {
	if c.Quick() {
		return q
	}
	return t
}

// splitmix64
func mix(x uint64) uint64 {
	x += 0x9e3779b97f4a7c15
	x = (x ^ (x >> 30)) * 0xbf58476d1ce4e5b9
	x = (x ^ (x >> 27)) * 0x94d049bb133111eb
	return x ^ (x >> 31)
}

func Hash(parts ...interface{}) uint64 {
	h := fnv.New64a()
	for _, p := range parts {
		fmt.Fprintf(h, "%v|", p)
	}
	return h.Sum64()
}

// CaseSeed derives the PRNG seed of one case from (run seed, property, stream, case index).
func (c *Ctx) CaseSeed(stream string, i int) int64 {
	return int64(mix(mix(uint64(c.Seed))^Hash(c.ID, stream)^mix(uint64(i))) >> 1)
}

func (c *Ctx) Rand(stream string, i int) *rand.Rand {
	return rand.New(rand.NewSource(c.CaseSeed(stream, i)))
}

func (c *Ctx) Eval(n int64) { atomic.AddInt64(&c.evaluations, n) }

// Nontrivial records the fingerprint of a case that met the property-specific non-triviality rule.
func (c *Ctx) Nontrivial(fp uint64) {
	c.mu.Lock()
	if len(c.nontrivial) < 5_000_000 {
		c.nontrivial[fp] = struct{}{}
	}
	c.mu.Unlock()
}

func (c *Ctx) Count(name string, n int64) {
	c.mu.Lock()
	c.counters[name] += n
	c.mu.Unlock()
}

func (c *Ctx) Max(name string, v int64) {
	c.mu.Lock()
	if v > c.counters[name] {
		c.counters[name] = v
	}
	c.mu.Unlock()
}

func (c *Ctx) Get(name string) int64 {
	c.mu.Lock()
	defer c.mu.Unlock()
	return c.counters[name]
}

func (c *Ctx) Inconclusive(n int64) { atomic.AddInt64(&c.inconclusive, n) }

// Sample keeps the first few cases written out.
func (c *Ctx) Sample(v interface{}) {
	c.mu.Lock()
	if len(c.samples) < 3 {
		c.samples = append(c.samples, v)
	}
	c.mu.Unlock()
}

func (c *Ctx) WantSample() bool {
	c.mu.Lock()
	defer c.mu.Unlock()
	return len(c.samples) < 3
}

// Violation reports one refuting observation. class is a specific, stable fingerprint of WHAT failed
// (input class / call site), used for the known-findings lookup and for de-duplicating output; witness
// is written to a replay file. Returns true if it was a listed known finding.
func (c *Ctx) Violation(class string, witness interface{}) bool {
	c.mu.Lock()
	defer c.mu.Unlock()
	for _, f := range c.findings {
		if f.Kind == "known" && f.Match == class {
			c.knownHits[class]++
			if c.knownHits[class] == 1 {
				fmt.Printf("KNOWN-FINDING: property=%s %s\n", c.ID, f.Text)
			}
			return true
		}
	}
	c.violations++
	c.violClasses[class]++
	if c.violClasses[class] > 3 || c.replayN >= 20 {
		return false
	}
	c.replayN++
	dir := filepath.Join(Root, "replay")
	_ = os.MkdirAll(dir, 0o755)
	path := filepath.Join(dir, fmt.Sprintf("%s-%s-%d-%d.json", c.ID, c.Tier, c.Seed, c.replayN))
	b, err := json.MarshalIndent(map[string]interface{}{
		"property": c.ID, "tier": c.Tier, "seed": c.Seed, "class": class, "witness": witness,
		"replay": fmt.Sprintf("VERIF_SEED=%d bin/check %s %s", c.Seed, c.ID, c.Tier),
	}, "", " ")
	if err != nil {
		b = []byte(fmt.Sprintf("{\"class\":%q,\"witness\":%q}", class, fmt.Sprint(witness)))
	}
	_ = os.WriteFile(path, b, 0o644)
	fmt.Printf("VIOLATION property=%s replay=%s\n", c.ID, path)
	fmt.Printf("  class: %s\n", class)
	return false
}

func (c *Ctx) Violations() int64 {
	c.mu.Lock()
	defer c.mu.Unlock()
	return c.violations
}

// Parallel runs fn(i) for i in [0,n) on `workers` goroutines (0 = NumCPU). A panic inside fn escaping the
// check's own recovery is a harness error and aborts the process with the stack (exit 2 = broken check).
func (c *Ctx) Parallel(n, workers int, fn func(i int)) {
	if workers <= 0 {
		workers = runtime.NumCPU()
	}
	if workers > n {
		workers = n
	}
	var next int64 = -1
	var wg sync.WaitGroup
	for w := 0; w < workers; w++ {
		wg.Add(1)
		go func() {
			defer wg.Done()
			for {
				i := int(atomic.AddInt64(&next, 1))
				if i >= n {
					return
				}
				fn(i)
			}
		}()
	}
	wg.Wait()
}

// Try runs f and converts a panic into (recovered value, stack).
func Try(f func()) (p interface{}, stack string) {
	defer func() {
		if r := recover(); r != nil {
			p = r
			stack = string(debug.Stack())
		}
	}()
	f()
	return nil, ""
}

// Finish writes the evidence file and returns the process exit code.
func (c *Ctx) Finish() int {
	c.mu.Lock()
	defer c.mu.Unlock()
	cov := map[string]interface{}{
		"evaluations":         c.evaluations,
		"distinct_nontrivial": len(c.nontrivial),
		"rule":                c.Rule,
		"samples":             c.samples,
		"inconclusive":        c.inconclusive,
	}
	if c.Exhaustive {
		cov["exhaustive"] = true
	}
	keys := make([]string, 0, len(c.counters))
	for k := range c.counters {
		keys = append(keys, k)
	}
	sort.Strings(keys)
	obs := map[string]int64{}
	for _, k := range keys {
		obs[k] = c.counters[k]
	}
	cov["observed"] = obs
	if len(c.knownHits) > 0 {
		cov["known_finding_hits"] = c.knownHits
	}
	if len(c.violClasses) > 0 {
		cov["violation_classes"] = c.violClasses
	}
	evd := map[string]interface{}{
		"property_id": c.ID, "tier": c.Tier, "seed": c.Seed, "level": c.Level,
		"coverage": cov, "assumptions": c.Assumptions,
		"wall_s": float64(time.Since(c.start).Milliseconds()) / 1000, "violations": c.violations,
	}
	b, _ := json.MarshalIndent(evd, "", " ")
	if os.Getenv("VERIF_NO_EVIDENCE") != "" {
		// helper run (e.g. the -race child of C28): counters go to stdout for the parent, no evidence file
		for _, k := range keys {
			fmt.Printf("COUNTER %s %d\n", k, c.counters[k])
		}
		if c.violations > 0 {
			return 1
		}
		return 0
	}
	evDir := filepath.Join(Root, "evidence")
	if d := os.Getenv("VERIF_EVIDENCE_DIR"); d != "" {
		evDir = d // runs against a scratch copy of the repository (seeded changes) must not touch the real evidence
	}
	_ = os.MkdirAll(evDir, 0o755)
	if err := os.WriteFile(filepath.Join(evDir, c.ID+".json"), append(b, '\n'), 0o644); err != nil {
		fmt.Printf("BROKEN: cannot write evidence: %v\n", err)
		return 2
	}
	fmt.Printf("SUMMARY property=%s tier=%s seed=%d evaluations=%d distinct_nontrivial=%d violations=%d inconclusive=%d wall=%.1fs\n",
		c.ID, c.Tier, c.Seed, c.evaluations, len(c.nontrivial), c.violations, c.inconclusive, time.Since(c.start).Seconds())
	for _, k := range keys {
		fmt.Printf("  observed %s=%d\n", k, c.counters[k])
	}
	if c.violations > 0 {
		return 1
	}
	if c.evaluations == 0 || len(c.nontrivial) < 2 || len(c.samples) == 0 {
		fmt.Printf("BROKEN: check observed nothing (evaluations=%d nontrivial=%d samples=%d)\n", c.evaluations, len(c.nontrivial), len(c.samples))
		return 2
	}
	return 0
}
