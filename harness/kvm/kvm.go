// Package kvm is engine E3: an ordered byte-string map model, colliding key/value alphabets, comparison
// helpers and the factory of backend/wrapper stacks used by the KV properties (C22, C23, C24).
package kvm

import (
	"bytes"
	"fmt"
	"math/rand"
	"os"
	"path/filepath"
	"sort"
	"sync"

	"github.com/Fantom-foundation/lachesis-base/kvdb"
	"github.com/Fantom-foundation/lachesis-base/kvdb/flushable"
	"github.com/Fantom-foundation/lachesis-base/kvdb/leveldb"
	"github.com/Fantom-foundation/lachesis-base/kvdb/memorydb"
	"github.com/Fantom-foundation/lachesis-base/kvdb/pebble"
	"github.com/Fantom-foundation/lachesis-base/kvdb/synced"
	"github.com/Fantom-foundation/lachesis-base/kvdb/table"
)

var Alpha = []byte{0x00, 0x01, 'a', 'b', 0xfe, 0xff}

// Key draws a byte string of length min..max over the colliding alphabet (never nil).
func Key(r *rand.Rand, min, max int) []byte {
	n := min + r.Intn(max-min+1)
	k := make([]byte, n)
	for i := range k {
		k[i] = Alpha[r.Intn(len(Alpha))]
	}
	return k
}

type Pair struct{ K, V []byte }

type Model map[string][]byte

func (m Model) Copy() Model {
	c := Model{}
	for k, v := range m {
		c[k] = v
	}
	return c
}

// Iter lists the pairs an iterator with (prefix, start) must yield, ascending.
func (m Model) Iter(prefix, start []byte) []Pair {
	keys := make([]string, 0, len(m))
	for k := range m {
		keys = append(keys, k)
	}
	sort.Strings(keys)
	lo := append(append([]byte{}, prefix...), start...)
	var out []Pair
	for _, k := range keys {
		kb := []byte(k)
		if bytes.HasPrefix(kb, prefix) && bytes.Compare(kb, lo) >= 0 {
			out = append(out, Pair{kb, m[k]})
		}
	}
	return out
}

func (m Model) Equal(o Model) bool {
	if len(m) != len(o) {
		return false
	}
	for k, v := range m {
		w, ok := o[k]
		if !ok || !bytes.Equal(v, w) {
			return false
		}
	}
	return true
}

// ReadAll drains an iterator of r into pairs (copies), returning the iterator error.
func ReadAll(r kvdb.Iteratee, prefix, start []byte, limit int) ([]Pair, error) {
	it := r.NewIterator(prefix, start)
	defer it.Release()
	var out []Pair
	for (limit < 0 || len(out) < limit) && it.Next() {
		out = append(out, Pair{append([]byte{}, it.Key()...), append([]byte{}, it.Value()...)})
	}
	return out, it.Error()
}

// Dump reads the whole store into a model.
func Dump(r kvdb.Iteratee) (Model, error) {
	ps, err := ReadAll(r, nil, nil, -1)
	m := Model{}
	for _, p := range ps {
		m[string(p.K)] = p.V
	}
	return m, err
}

// SamePairs compares an iteration result with the expected list (nil and empty values are both "empty").
func SamePairs(got, want []Pair) string {
	for i := range got {
		if i >= len(want) {
			return fmt.Sprintf("extra item %d: %x=%x (expected %d items)", i, got[i].K, got[i].V, len(want))
		}
		if !bytes.Equal(got[i].K, want[i].K) || !bytes.Equal(got[i].V, want[i].V) {
			return fmt.Sprintf("item %d is %x=%x, expected %x=%x", i, got[i].K, got[i].V, want[i].K, want[i].V)
		}
	}
	if len(got) < len(want) {
		return fmt.Sprintf("only %d items, expected %d (next expected %x)", len(got), len(want), want[len(got)].K)
	}
	return ""
}

func FmtPairs(ps []Pair) string {
	s := ""
	for _, p := range ps {
		s += fmt.Sprintf("%x=%x ", p.K, p.V)
	}
	return s
}

// CheckPoint compares Get/Has of one key with the model.
func CheckPoint(r kvdb.Reader, m Model, k []byte) string {
	want, ok := m[string(k)]
	got, err := r.Get(k)
	has, err2 := r.Has(k)
	if err != nil || err2 != nil {
		return fmt.Sprintf("Get/Has(%x) error %v %v", k, err, err2)
	}
	if has != ok {
		return fmt.Sprintf("Has(%x)=%v, model present=%v", k, has, ok)
	}
	if ok && (got == nil || !bytes.Equal(got, want)) {
		return fmt.Sprintf("Get(%x)=%x (nil=%v), model %x", k, got, got == nil, want)
	}
	if !ok && got != nil {
		return fmt.Sprintf("Get(%x)=%x for an absent key", k, got)
	}
	return ""
}

// pfx returns a table prefix the way callers often hold one: a slice with spare capacity behind its length
func pfx(s string) []byte {
	b := make([]byte, len(s), len(s)+16)
	copy(b, s)
	return b
}

// ---- stacks

type Stack struct {
	Name  string
	DB    kvdb.Store
	Flush func() error // nil if the stack has no flushable layer
}

// Bench owns the on-disk backends of one worker; stacks are rebuilt (cheaply) over them per sequence and
// the backends are wiped between sequences.
type Bench struct {
	dir   string
	lvl   []kvdb.Store
	peb   []kvdb.Store
	close []kvdb.Store
}

func NewBench(tag string) (*Bench, error) {
	dir, err := os.MkdirTemp("", "verif-kv-"+tag+"-")
	if err != nil {
		return nil, err
	}
	b := &Bench{dir: dir}
	for i := 0; i < 4; i++ {
		l, err := leveldb.New(filepath.Join(dir, fmt.Sprintf("lvl-%d", i)), 2<<20, 0, nil, nil)
		if err != nil {
			b.Close()
			return nil, err
		}
		b.lvl = append(b.lvl, l)
		b.close = append(b.close, l)
		p, err := pebble.New(filepath.Join(dir, fmt.Sprintf("peb-%d", i)), 2<<20, 100, nil, nil)
		if err != nil {
			b.Close()
			return nil, err
		}
		b.peb = append(b.peb, p)
		b.close = append(b.close, p)
	}
	return b, nil
}

func (b *Bench) Close() {
	for _, c := range b.close {
		_ = c.Close()
	}
	_ = os.RemoveAll(b.dir)
}

// Wipe removes every key from the on-disk backends.
func (b *Bench) Wipe() error {
	for _, db := range append(append([]kvdb.Store{}, b.lvl...), b.peb...) {
		ps, err := ReadAll(db, nil, nil, -1)
		if err != nil {
			return err
		}
		for _, p := range ps {
			if err := db.Delete(p.K); err != nil {
				return err
			}
		}
	}
	return nil
}

func (b *Bench) Level(i int) kvdb.Store  { return b.lvl[i] }
func (b *Bench) Pebble(i int) kvdb.Store { return b.peb[i] }

// Stacks builds every backend/wrapper stacking over the (wiped) backends.
func (b *Bench) Stacks() []Stack {
	fl := flushable.Wrap(b.lvl[1])
	fp := flushable.Wrap(b.peb[1])
	fm := flushable.Wrap(memorydb.New())
	ft := flushable.Wrap(table.New(b.lvl[2], pfx("q")))
	fp3 := flushable.Wrap(b.peb[3])
	lazyUnder := memorydb.New()
	lz := flushable.NewLazy(func() (kvdb.Store, error) { return lazyUnder, nil }, func() {})
	return []Stack{
		{"memory", memorydb.New(), nil},
		{"leveldb", b.lvl[0], nil},
		{"pebble", b.peb[0], nil},
		{"table(ff)/memory", table.New(memorydb.New(), pfx(string([]byte{0xff}))), nil},
		{"table(ffff)/table(x)/pebble", table.New(table.New(b.peb[2], pfx("x")), pfx(string([]byte{0xff, 0xff}))), nil},
		{"flushable/leveldb", fl, fl.Flush},
		{"table(y)/flushable/pebble", table.New(fp, pfx("y")), fp.Flush},
		{"flushable/memory", fm, fm.Flush},
		{"synced/table(zz)/leveldb", synced.WrapStore(table.New(b.lvl[3], pfx("zz")), &sync.RWMutex{}), nil},
		{"flushable/table(q)/leveldb", ft, ft.Flush},
		{"synced/table(a\\xff)/flushable/pebble", synced.WrapStore(table.New(fp3, pfx(string([]byte{'a', 0xff}))), &sync.RWMutex{}), fp3.Flush},
		{"lazyflushable/memory", lz, lz.Flush},
	}
}
