// Package memdisk is engine E6: an in-memory "disk" of named key-value databases that survives the death of
// the process using it. Every durable operation that reaches it (Put, Delete, Batch.Write, Drop) is counted
// and, when recording is on, followed by a deep snapshot of the whole disk: snapshot i is exactly what a
// crash right after the i-th durable operation leaves behind.
package memdisk

import (
	"errors"
	"sort"
	"sync"

	"github.com/Fantom-foundation/lachesis-base/kvdb"
	"github.com/Fantom-foundation/lachesis-base/kvdb/memorydb"
)

type Image map[string]map[string][]byte // db name -> key -> value

func (im Image) Copy() Image {
	c := Image{}
	for n, m := range im {
		cm := map[string][]byte{}
		for k, v := range m {
			cm[k] = v
		}
		c[n] = cm
	}
	return c
}

type Op struct {
	Kind string // put | delete | batch | drop
	DB   string
}

type Disk struct {
	mu     sync.Mutex
	dbs    map[string]kvdb.Store // live content (memorydb never closed)
	Record bool
	Ops    []Op
	Snaps  []Image // Snaps[i] = state after Ops[i]
	// fault injection: the operation with this index (0-based) and all later ones panic with ErrCrashed
	CrashAt int
}

var ErrCrashed = errors.New("memdisk: simulated crash")

func New() *Disk { return &Disk{dbs: map[string]kvdb.Store{}, CrashAt: -1} }

// FromImage creates a disk holding a copy of im.
func FromImage(im Image) *Disk {
	d := New()
	for n, m := range im {
		db := memorydb.New()
		for k, v := range m {
			_ = db.Put([]byte(k), append([]byte{}, v...))
		}
		d.dbs[n] = db
	}
	return d
}

// Image returns a deep copy of the current content.
func (d *Disk) Image() Image {
	d.mu.Lock()
	defer d.mu.Unlock()
	return d.image()
}

func (d *Disk) image() Image {
	im := Image{}
	for n, db := range d.dbs {
		m := map[string][]byte{}
		it := db.NewIterator(nil, nil)
		for it.Next() {
			m[string(it.Key())] = append([]byte{}, it.Value()...)
		}
		it.Release()
		im[n] = m
	}
	return im
}

func (d *Disk) durable(kind, db string, apply func()) {
	d.mu.Lock()
	defer d.mu.Unlock()
	if d.CrashAt >= 0 && len(d.Ops) >= d.CrashAt {
		panic(ErrCrashed)
	}
	apply()
	d.Ops = append(d.Ops, Op{kind, db})
	if d.Record {
		d.Snaps = append(d.Snaps, d.image())
	}
}

func (d *Disk) NumOps() int {
	d.mu.Lock()
	defer d.mu.Unlock()
	return len(d.Ops)
}

// ---- producer

type Producer struct{ d *Disk }

func (d *Disk) Producer() *Producer { return &Producer{d} }

func (p *Producer) Names() []string {
	p.d.mu.Lock()
	defer p.d.mu.Unlock()
	var out []string
	for n := range p.d.dbs {
		out = append(out, n)
	}
	sort.Strings(out)
	return out
}

func (p *Producer) OpenDB(name string) (kvdb.Store, error) {
	p.d.mu.Lock()
	defer p.d.mu.Unlock()
	db, ok := p.d.dbs[name]
	if !ok {
		db = memorydb.New()
		p.d.dbs[name] = db
	}
	return &store{Store: db, d: p.d, name: name}, nil
}

type store struct {
	kvdb.Store
	d      *Disk
	name   string
	closed bool
}

func (s *store) Put(k, v []byte) error {
	var err error
	s.d.durable("put", s.name, func() { err = s.Store.Put(k, v) })
	return err
}
func (s *store) Delete(k []byte) error {
	var err error
	s.d.durable("delete", s.name, func() { err = s.Store.Delete(k) })
	return err
}
func (s *store) Close() error { s.closed = true; return nil }
func (s *store) Drop() {
	s.d.durable("drop", s.name, func() { delete(s.d.dbs, s.name) })
}
func (s *store) NewBatch() kvdb.Batch { return &batch{Batch: s.Store.NewBatch(), s: s} }

// batch reports its size the way the LevelDB and Pebble batches do (sum of value lengths, one per delete), not the way
// the in-memory batch does (keys count too): callers must not read more into ValueSize than "some measure of the data".
type batch struct {
	kvdb.Batch
	s    *store
	size int
}

func (b *batch) Put(k, v []byte) error { b.size += len(v); return b.Batch.Put(k, v) }
func (b *batch) Delete(k []byte) error { b.size++; return b.Batch.Delete(k) }
func (b *batch) ValueSize() int        { return b.size }
func (b *batch) Reset()                { b.size = 0; b.Batch.Reset() }

func (b *batch) Write() error {
	var err error
	b.s.d.durable("batch", b.s.name, func() { err = b.Batch.Write() })
	return err
}
