// Package hist is engine E4: a history recorder for linearizability checking. Call and return stamps come
// from one process-wide atomic counter (logical time); the call is stamped before the operation is invoked
// and the return after it came back, at the client boundary.
package hist

import (
	"runtime"
	"sync"
	"sync/atomic"

	"github.com/anishathalye/porcupine"
)

type Recorder struct {
	clock int64
	mu    sync.Mutex
	ops   []porcupine.Operation
}

func (r *Recorder) Do(client int, input interface{}, f func() interface{}) interface{} {
	call := atomic.AddInt64(&r.clock, 1)
	out := f()
	ret := atomic.AddInt64(&r.clock, 1)
	r.mu.Lock()
	r.ops = append(r.ops, porcupine.Operation{ClientId: client, Input: input, Call: call, Output: out, Return: ret})
	r.mu.Unlock()
	return out
}

// DoMulti records one physical call as several operations sharing its interval (for calls that the
// specification allows to take effect piecewise, e.g. a pool flush = one flush per database).
func (r *Recorder) DoMulti(client int, inputs []interface{}, f func() []interface{}) {
	call := atomic.AddInt64(&r.clock, 1)
	outs := f()
	ret := atomic.AddInt64(&r.clock, 1)
	r.mu.Lock()
	for i, in := range inputs {
		r.ops = append(r.ops, porcupine.Operation{ClientId: client*100 + i, Input: in, Call: call, Output: outs[i], Return: ret})
	}
	r.mu.Unlock()
}

func (r *Recorder) Ops() []porcupine.Operation {
	r.mu.Lock()
	defer r.mu.Unlock()
	return append([]porcupine.Operation{}, r.ops...)
}

// Overlaps reports whether at least one pair of operations of different clients overlaps in time.
func Overlaps(ops []porcupine.Operation) bool {
	for i := range ops {
		for j := i + 1; j < len(ops); j++ {
			if ops[i].ClientId != ops[j].ClientId && ops[i].Call < ops[j].Return && ops[j].Call < ops[i].Return {
				return true
			}
		}
	}
	return false
}

// Run starts n clients behind a start barrier; each client body gets its index.
func Run(n int, body func(client int)) {
	var wg sync.WaitGroup
	start := make(chan struct{})
	for c := 0; c < n; c++ {
		wg.Add(1)
		go func(c int) {
			defer wg.Done()
			<-start
			body(c)
		}(c)
	}
	close(start)
	wg.Wait()
}

// Jitter yields or spins a little, chosen by x, to vary interleavings between a client's operations.
func Jitter(x int) {
	switch x % 4 {
	case 0:
		runtime.Gosched()
	case 1:
		for i := 0; i < (x%97)*20; i++ {
			_ = i
		}
	}
}
