#!/usr/bin/env python3
"""bin/seeded_meta.py: writes seeded/<id>/meta.json for the second and third wave of seeded changes
(<Cxx>-2A/2B ... <Cxx>-5A/5B) from seeded/wave2_meta.json, seeded/wave3_meta.json (what each change is and what it needs,
condensed from the sub-agents' READMEs) and from each directory's result.txt (bin/seeded_matrix)."""
import json, os, sys

ROOT = os.path.join(os.path.dirname(os.path.abspath(__file__)), '..', 'seeded')
BASE = 'e994325'  # the /repo commit the sub-agents' worktrees were created from (waves 2 and 3)

# caught by the check of a related property as well / instead (bin/seeded_run <dir> <ID>)
ALSO = {
    'C01-2A': 'C10 rc=1 block-emission-moment (the premature decisions change the moment a block is emitted; C01 itself needs the polarised DAG of the demonstration)',
    'C01-2B': 'C09 rc=1 process-fails-around-seal; C01 catches it at 3 of 4 seeds (quick)',
    'C08-2A': 'C01/C10 (order dependence); C08 thorough',
    'C09-2A': 'C08 rc=1 (restart after the seal)',
    'C22-2B': 'C23 rc=1',
    'C03-3A': 'C06 rc=1 merged-clock-differs-from-definition, C10 rc=1 valid-event-rejected, C20 rc=1 metric-differs-from-definition (the corrupted cached vector)',
    'C04-3B': 'C05 rc=1 forkless-cause-stale-after-reset (same one-line change as C05-B of the first wave)',
    'C11-3B': 'C12 rc=1 built-set-changes-when-a-builder-is-edited',
    'C01-4B': 'C33 rc=1 root-registry-differs-from-model (whole registry of a real run with a lagging validator); C01 itself: the sub-agent\'s own random search found no order dependence in 2300 DAGs',
    'C10-4B': 'same one-line change as C05-B / C04-3B: C05 rc=1 forkless-cause-stale-after-reset, C04 rc=1 build-frame-depends-on-earlier-builds',
    'C14-4A': 'needs overlapping pushes: C28 rc=1 history-not-linearizable:ordering_buffer',
    'C14-4B': 'needs Clear() overlapping a push inside a slow Process: C28 rc=1 history-not-linearizable:ordering_buffer',
    'C29-4B': 'needs overlapping ContainsOrAdd calls (same change as C28-B): C28 rc=1 history-not-linearizable:wlru',
    'C30-4B': 'same change as C28-4A: C28 rc=1 history-not-linearizable:semaphore (the over-release report is part of the release\'s outcome)',
    'C33-4A': 'same change as C08-A: also C08 rc=1 restart-chain-diverges',
    'C09-4A': 'also C33 rc=1', 'C09-4B': 'also C33 rc=1',
    'C07-4A': 'also C04 rc=1 build-frame-depends-on-earlier-builds',
    'C11-4A': 'also C12 rc=1 rlp-round-trip-changes-set',
    'C13-5B': 'the C11-3B change again (Builder() without copy): C12 rc=1 built-set-changes-when-a-builder-is-edited, C11 rc=1',
    'C09-5B': 'the C11-3B change again (Builder() without copy): C12 rc=1 built-set-changes-when-a-builder-is-edited',
    'C33-5B': 'a change of kvdb/flushable (empty value flushed as a deletion): C22 rc=1, C23 rc=1; the C33 harness never flushes its epoch databases',
    'C03-5B': 'C05 rc=1 forkless-cause-differs-from-definition, C06 rc=1 merged-clock-differs-from-definition (the fork flag is wrong in the index itself)',
    'C23-5A': 'C24 rc=1 table-differs-from-prefix-view-model (iterations interleaved with point reads through a table whose prefix slice has spare capacity)',
    'C09-7A': 'the C05-B / C04-3B / C10-4B change a fourth time: C05 rc=1 forkless-cause-stale-after-reset, C04 rc=1 build-frame-depends-on-earlier-builds on first contact; C09 itself missed it until the wrong-set-first reset twin was added (DESIGN 11e)',
    'C11-7A': 'missed on first contact: no counting sequence named an ID outside the set; caught since c11Strangers was added (DESIGN 11e)',
    'C33-8A': 'missed on first contact: no cache configuration of the check was larger than 100 roots, so a list of 100 entries never stayed cached; caught since {..,1000} was added to the cache sizes and every second bulk registration goes into a frame queried just before (DESIGN 11f)',
    'C04-9A': 'missed on first contact: bursts of speculative builds ended at 600 (3000 thorough); caught since every eighth DAG of the C04 check has one burst of 65536 builds (decoy, parentless fillers, real event as build number 2^16) (DESIGN 11g)',
    'C21-5B': 'missed until the C21 check was extended to negative thresholds (DESIGN 11c, known findings K2/K3); caught by C21 since then',
}

n = 0
for wave, src in (('2', 'wave2_meta.json'), ('3', 'wave3_meta.json'), ('4', 'wave4_meta.json'), ('5', 'wave5_meta.json'), ('6', 'wave6_meta.json'), ('7', 'wave7_meta.json'), ('8', 'wave8_meta.json'), ('9', 'wave9_meta.json')):
    M = json.load(open(os.path.join(ROOT, src)))
    for k, v in sorted(M.items()):
        d = os.path.join(ROOT, k)
        if not os.path.isdir(d):
            print('missing', k)
            continue
        res = open(os.path.join(d, 'result.txt')).read().strip() if os.path.exists(os.path.join(d, 'result.txt')) else ''
        dd = open(os.path.join(d, 'demo_dir.txt')).read().strip()
        mroot = '/tmp/mut' + wave
        base = BASE if wave in '23' else '621f18e'
        meta = {
            'seeded_id': k, 'breaks_property': k.split('-')[0], 'wave': int(wave),
            'change': v['change'], 'needs_to_manifest': v['needs'],
            'patch_applies_to': base,
            'demonstration': {'file': 'demo_test.go', 'copy_into': dd + '/', 'note': 'fails with patch.diff applied, passes on the clean tree'},
            'confirmed_by': 'MUTROOT=%s SUFFIX=%s bin/seed_verify %s %s: git apply on a clean scratch worktree; go build ./...; demo FAILS with the change; go test -vet=off -count=1 ./... PASSES with the change (demo removed); demo PASSES without the change' % (mroot, wave, k.split('-')[0], k[-1]),
            'origin': 'independent sub-agent given only the property text, the list of mechanisms already used, and its own scratch worktree',
            'check_result': res,
        }
        if os.path.exists(os.path.join(d, 'patch.rebased.diff')):
            meta['rebased'] = 'patch.rebased.diff is the same change on top of the later fix: commit 621f18e (same file); bin/seeded_run uses it'
        if k in ALSO:
            meta['other_checks'] = ALSO[k]
        json.dump(meta, open(os.path.join(d, 'meta.json'), 'w'), indent=1)
        n += 1
print(n, 'meta.json written')
