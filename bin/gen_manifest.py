#!/usr/bin/env python3
"""Regenerates /verif/MANIFEST.json from bin/checks_meta.py (run after adding a check)."""
import json, os, sys

ROOT = os.path.dirname(os.path.dirname(os.path.abspath(__file__)))
sys.path.insert(0, os.path.join(ROOT, "bin"))
from checks_meta import CHECKS  # noqa: E402

NOT_YET = "check not built yet in this round (planned in DESIGN.md §5); nothing is claimed for it"


def main():
    props = [json.loads(l) for l in open(os.path.join(ROOT, "properties.jsonl"))]
    checks, na = [], []
    for p in props:
        pid = p["id"]
        if pid in CHECKS:
            level, tech, text, note, ref = CHECKS[pid]
            checks.append({
                "property_id": pid,
                "quick_cmd": f"bin/check {pid} quick",
                "thorough_cmd": f"bin/check {pid} thorough",
                "evidence_file": f"evidence/{pid}.json",
                "replay_cmd_template": "cat {path}  # the witness names seed and tier: VERIF_SEED=<seed> bin/check " + pid + " <tier> re-runs the deterministic case list",
                "engine": "vcheck",
                "level_claimed": {"category": level, "text": text, "design_ref": ref},
                "level_note": note,
                "technique": tech,
            })
        else:
            na.append({"property_id": pid, "reason": NOT_YET})
    hooks_commits = []
    hc = os.path.join(ROOT, "hook_commits.txt")
    if os.path.exists(hc):
        hooks_commits = [l.split()[0] for l in open(hc) if l.strip() and not l.startswith("#")]
    m = {
        "version": 1,
        "setup_cmd": "bin/setup",
        "hooks": {
            "guard": "verif",
            "enable": "go build -tags verif (bin/check builds harness/cmd/vcheck with -tags verif against /repo through the replace directive in harness/go.mod)",
            "baseline_off_cmd": "cd /repo && GOFLAGS=-mod=mod GOPROXY=off GOSUMDB=off GOTOOLCHAIN=local go test -json -vet=off -count=1 -timeout 25m ./...",
            "source_commits": hooks_commits,
            "add_only": True,
        },
        "engines": [
            {"name": "vcheck", "path": "harness/", "serves_properties": sorted(CHECKS.keys()),
             "kind_free_text": "Go monitor binary: generated/hostile workloads drive the real code from /repo, oracles (reference models, stream invariants, porcupine history checks, race detector) decide; one child process per property"},
        ],
        "checks": checks,
        "not_applicable": na,
        "notes": "Technique family: runtime monitoring and sanitizers only. See DESIGN.md. known_findings.json lists recorded/fixed defects.",
    }
    json.dump(m, open(os.path.join(ROOT, "MANIFEST.json"), "w"), indent=1)
    print(f"MANIFEST.json: {len(checks)} checks, {len(na)} not claimed")


if __name__ == "__main__":
    main()
